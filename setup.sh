#!/bin/sh
# Offline build of the analysis environment: /venv's packages (pandas etc.) + crosshair-tool + z3-solver.
set -e
cd "$(dirname "$0")"
VERIF="$(pwd)"
if [ -x "$VERIF/.venv/bin/python" ] && "$VERIF/.venv/bin/python" -c "import crosshair, z3" 2>/dev/null; then
  echo "setup: .venv ready"; exit 0
fi
rm -rf "$VERIF/.venv"
/venv/bin/python -m venv "$VERIF/.venv"
SP="$("$VERIF/.venv/bin/python" -c 'import sysconfig;print(sysconfig.get_paths()["purelib"])')"
echo "import site; site.addsitedir('/venv/lib/python3.12/site-packages')" > "$SP/vp_overlay.pth"
PIP_NO_INDEX=1 "$VERIF/.venv/bin/pip" install -q --no-index --find-links /opt/veriftools/wheels crosshair-tool z3-solver
"$VERIF/.venv/bin/python" -c "import crosshair, z3, pandas; print('setup: ok', crosshair.__version__, z3.get_version_string())"
