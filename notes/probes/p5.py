import re
from hed.validator.util.class_util import is_numeric_value_class
from hed.validator.util.char_util import CharRexValidator
from hed.models.df_util import replace_ref
from hed.validator.sidecar_validator import SidecarValidator
CV = CharRexValidator()

def num1(s: str) -> bool:
    """
    pre: len(s) <= 4
    post: _
    """
    # anything accepted consists only of numeric chars or '#'
    if is_numeric_value_class(s):
        return all(c in "0123456789.-e#" for c in s)
    return True

def num2(s: str) -> bool:
    """
    pre: len(s) <= 4
    post: _
    """
    m = CV.is_valid_value(s, "numericClass")
    if m:
        return all(c in "0123456789.-+eE" for c in s) and any(c in "0123456789" for c in s)
    return True

def braces(s: str) -> bool:
    """
    pre: len(s) <= 5
    post: _
    """
    bad = SidecarValidator._find_non_matching_braces(s)
    # oracle: balanced non-nested iff regex-like scan
    depth = 0
    ok = True
    for c in s:
        if c == '{':
            if depth: ok = False
            depth = 1
        elif c == '}':
            if not depth: ok = False
            depth = 0
    if depth: ok = False
    return (bad == []) == ok

def refclean(pre_: str, post_: str) -> bool:
    """
    pre: len(pre_) <= 3 and len(post_) <= 3
    pre: all(c in "a,() " for c in pre_) and all(c in "a,() " for c in post_)
    post: _
    """
    text = pre_ + "{r}" + post_
    out = replace_ref(text, "{r}", "n/a")
    return "{" not in out and "n/a" not in out
