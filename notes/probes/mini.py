"""Build a tiny-name schema via the real loader. Concrete, import-time."""
from hed import load_schema_version
from hed.schema import from_string

TAGS = """'''A''' <nowiki>{extensionAllowed} [Root a.]</nowiki>
* B <nowiki>[Node b.]</nowiki>
** C <nowiki>[Node c.]</nowiki>
*** <nowiki># {takesValue, valueClass=numericClass, unitClass=timeUnits} [c value]</nowiki>
* D <nowiki>{requireChild} [Node d.]</nowiki>
** E <nowiki>[Node e.]</nowiki>
'''F''' <nowiki>[Root f no extension.]</nowiki>
* G <nowiki>{tagGroup} [Node g.]</nowiki>
* H <nowiki>[Node h.]</nowiki>
** <nowiki># {takesValue, valueClass=nameClass} [h value]</nowiki>
* U <nowiki>{unique} [unique node]</nowiki>
'''Def''' <nowiki>{requireChild, reserved} [def]</nowiki>
* <nowiki># {takesValue, valueClass=nameClass} [def value]</nowiki>
'''Def-expand''' <nowiki>{requireChild, reserved, tagGroup} [defx]</nowiki>
* <nowiki># {takesValue, valueClass=nameClass} [defx value]</nowiki>
'''Definition''' <nowiki>{requireChild, reserved, topLevelTagGroup} [defn]</nowiki>
* <nowiki># {takesValue, valueClass=nameClass} [defn value]</nowiki>
'''Onset''' <nowiki>{reserved, topLevelTagGroup} [onset]</nowiki>
'''Offset''' <nowiki>{reserved, topLevelTagGroup} [offset]</nowiki>
'''Inset''' <nowiki>{reserved, topLevelTagGroup} [inset]</nowiki>
'''Delay''' <nowiki>{requireChild, reserved, topLevelTagGroup} [delay]</nowiki>
* <nowiki># {takesValue, valueClass=numericClass, unitClass=timeUnits} [delay value]</nowiki>
'''Duration''' <nowiki>{requireChild, reserved, topLevelTagGroup} [duration]</nowiki>
* <nowiki># {takesValue, valueClass=numericClass, unitClass=timeUnits} [duration value]</nowiki>
"""

def build():
    real = load_schema_version("8.3.0")
    lines = real.get_as_mediawiki_string().split("\n")
    s = lines.index("!# start schema")
    e = lines.index("!# end schema")
    out = lines[:s+1] + [""] + TAGS.split("\n") + [""] + lines[e:]
    # strip hedId attrs (avoid id range checks irrelevant here)
    text = "\n".join(out)
    import re
    text = re.sub(r",? ?hedId=HED_\d+", "", text)
    text = text.replace("{, ", "{").replace("<nowiki>{}</nowiki>", "")
    return from_string(text, ".mediawiki")

MINI = build()
if __name__ == "__main__":
    print(len(MINI.tags.long_form_tags), sorted(MINI.tags.long_form_tags))
    from hed import HedString
    for t in ["A", "b/c/3 s", "A/B/x", "C/5 ms", "q", "f/x", "(G, H/a)", "D", "Def/x"]:
        hs = HedString(t, MINI)
        print(t, [ (i['code'], i['severity']) for i in hs.validate()], hs.get_as_long())
