import chx; chx.install()
from mini import MINI
from hed.models.hed_tag import HedTag

def tag_forms(s: str) -> bool:
    """
    pre: len(s) <= 3
    pre: all(32 <= ord(c) < 127 for c in s)
    post: _
    """
    t = HedTag(s, MINI)
    if t.tag_exists_in_schema():
        l = HedTag(t.long_tag, MINI)
        return l._schema_entry is t._schema_entry
    return True
