from typing import List, Optional, Tuple
from hed.errors.error_reporter import sort_issues, ErrorHandler

def sort_ok(rows: List[Tuple[int, bool, int]]) -> bool:
    """
    pre: len(rows) <= 3
    pre: all(0 <= r[0] <= 3 and 0 <= r[2] <= 2 for r in rows)
    post: _
    """
    issues = []
    for idx, (row, has_row, sev) in enumerate(rows):
        d = {'code': 'X', 'message': 'm', 'severity': 1 if sev == 0 else 10, 'id': idx}
        if has_row:
            d['ec_row'] = row
        issues.append(d)
    out = sort_issues(issues)
    if len(out) != len(issues): return False
    # permutation + ordered by row (missing = -1) + stable
    for a, b in zip(out, out[1:]):
        ka = a.get('ec_row', -1); kb = b.get('ec_row', -1)
        if ka > kb: return False
        if ka == kb and a['id'] > b['id']: return False
    errs = ErrorHandler.filter_issues_by_severity(issues, 1)
    return all(i['severity'] == 1 for i in errs) and len(errs) == sum(1 for i in issues if i['severity'] == 1)
