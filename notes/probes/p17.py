from typing import Dict, List
import bisect
from hed.schema import hed_cache_lock as cl
from hed.tools.analysis.event_manager import EventManager
from hed.tools.bids.bids_sidecar_file import BidsSidecarFile

class StubLock:
    def __init__(self, *a, **k): self.acquired = False; self.released = False
    def acquire(self, *a, **k): self.acquired = True
    def release(self): self.released = True
class StubPL:
    Lock = StubLock
    class exceptions:
        class LockException(Exception): pass

def lock_interval(now: int, last: int, threshold: int) -> bool:
    """
    pre: 0 <= last <= now <= 1000000
    pre: 0 <= threshold <= 5000
    post: _
    """
    saved = (cl.time, cl.portalocker, cl._read_last_cached_time, cl._write_last_cached_time, cl.os)
    class T:  # stub clock
        @staticmethod
        def time(): return now
    class O:
        class path:
            @staticmethod
            def join(*a): return "/".join(a)
        @staticmethod
        def makedirs(*a, **k): pass
    written = []
    cl.time = T; cl.portalocker = StubPL; cl._read_last_cached_time = lambda f: last
    cl._write_last_cached_time = lambda t, f: written.append(t); cl.os = O
    try:
        lk = cl.CacheLock("/c", write_time=True, time_threshold=threshold)
        try:
            with lk:
                entered = True
        except cl.CacheException:
            entered = False
        return entered == (not (now - last < threshold)) and (written == [now]) == entered
    finally:
        cl.time, cl.portalocker, cl._read_last_cached_time, cl._write_last_cached_time, cl.os = saved

class BF:
    def __init__(self, path, suffix, ents): self.file_path = path; self.suffix = suffix; self.entity_dict = ents

def _c(x): return len(x) == 1 and x in "ab"

def sidecar_for(k1: str, v1: str, k2: str, v2: str, n_s: int, fk1: str, fv1: str, fk2: str, fv2: str, n_f: int, deep: bool) -> bool:
    """
    pre: _c(k1) and _c(v1) and _c(k2) and _c(v2) and _c(fk1) and _c(fv1) and _c(fk2) and _c(fv2)
    pre: 0 <= n_s <= 2 and 0 <= n_f <= 2 and k1 != k2 and fk1 != fk2
    post: _
    """
    sp = [(k1, v1), (k2, v2)][:n_s]
    fp = [(fk1, fv1), (fk2, fv2)][:n_f]
    se = {k: v for k, v in sp}
    fe = {k: v for k, v in fp}
    sc = BidsSidecarFile.__new__(BidsSidecarFile)
    sc.file_path = "/d/sub-1/x_events.json" if deep else "/d/x_events.json"
    sc.suffix = "events"; sc.entity_dict = se
    f = BF("/d/sub-1/f_events.tsv", "events", fe)
    exp = all(any(k == fk and v == fv for fk, fv in fp) for k, v in sp)
    return sc.is_sidecar_for(f) == exp
