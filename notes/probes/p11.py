import memfs
from hed.tools.remodeling import backup_manager as bm
from hed.tools.util import io_util
from hed.errors.exceptions import HedFileError

def crash_consistent(k: int, nfiles: int) -> bool:
    """
    pre: 0 <= k <= 40
    pre: 1 <= nfiles <= 3
    post: _
    """
    fs = memfs.MemFS()
    fs.makedirs("/data/sub1")
    names = ["/data/sub1/a_events.tsv", "/data/sub1/b_events.tsv", "/data/c_events.tsv"]
    files = []
    for i in range(3):
        if i < nfiles:
            fs.files[names[i]] = "content-%d" % i
            files.append(names[i])
    fos = memfs.FakeOS(fs)
    bm.os = fos; io_util.os = fos; bm.shutil = memfs.FakeShutil(fs); bm.open = fs.open
    try:
        man = bm.BackupManager("/data")
        fs.ops = 0
        fs.crash_at = k
        try:
            man.create_backup(files, "bk")
        except memfs.Crash:
            pass
        fs.crash_at = None
        # recovery: a new manager either does not list the backup or lists it complete
        try:
            man2 = bm.BackupManager("/data")
        except HedFileError:
            return True   # refuses => not listed
        b = man2.get_backup("bk")
        if b is None:
            return True
        for bf, of in zip(man2.get_backup_files("bk"), man2.get_backup_files("bk", original_paths=True)):
            if fs.files.get(bf) != fs.files.get(of):
                return False
        return len(b) == nfiles
    finally:
        import os, shutil
        bm.os = os; io_util.os = os; bm.shutil = shutil
        del bm.open
