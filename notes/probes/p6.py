from hed.validator.util.string_util import StringValidator
SV = StringValidator()

def oracle_ok(s: str) -> bool:
    # independent reading: tokens; well-formed list grammar
    # items separated by commas; item = tag | group ; group = '(' list? ')'
    toks = []
    cur = False
    for ch in s:
        if ch in ",()":
            if cur: toks.append("t"); cur = False
            toks.append(ch)
        elif ch.strip() == "":
            # blank inside a tag does not split it; blank-only is nothing
            pass
        else:
            cur = True
    if cur: toks.append("t")
    # now check: no adjacent items w/o comma, no empty items
    depth = 0
    prev = None  # None, 't', ',', '(', ')'
    for t in toks:
        if t == "t":
            if prev in ("t", ")"): return False
        elif t == ",":
            if prev in (None, ",", "("): return False
        elif t == "(":
            if prev in ("t", ")"): return False
            depth += 1
        elif t == ")":
            if prev == ",": return False
            depth -= 1
        prev = t
    if prev == ",": return False
    return True

def delim(s: str) -> bool:
    """
    pre: len(s) <= 4 and all(32 <= ord(c) < 127 for c in s)
    post: _
    """
    issues = SV.check_delimiter_issues_in_hed_string(s)
    return (issues == []) == oracle_ok(s)
