from hed.schema.schema_io.schema2wiki import Schema2Wiki
from hed.schema.schema_io.wiki2schema import SchemaLoaderWiki
from hed.schema.schema_io import text_util
from hed.schema.hed_schema import HedSchema
from hed.schema.hed_schema_constants import HedSectionKey

class E:
    def __init__(self, name, attrs, desc):
        self.name = name; self.attributes = attrs; self.description = desc
        self.section_key = HedSectionKey.ValueClasses

NAMEC = "ab-_1"
TEXTC = "ab =.'"

def attr_rt(an: str, av: str, flag: bool) -> bool:
    """
    pre: 1 <= len(an) <= 2 and all(c in "abZ" for c in an)
    pre: 1 <= len(av) <= 3 and all(c in "ab1,-" for c in av)
    pre: not av.startswith(",") and not av.endswith(",") and ",," not in av
    post: _
    """
    attrs = {an: True} if flag else {an: av}
    w = Schema2Wiki(); w._strip_out_in_library = False
    txt = w._format_tag_attributes(attrs)
    back = text_util.parse_attribute_string(txt)
    from hed.schema.hed_schema_entry import HedSchemaEntry
    return HedSchemaEntry._compare_attributes_no_order(attrs, back)

def line_rt(name: str, desc: str) -> bool:
    """
    pre: 1 <= len(name) <= 2 and all(c in NAMEC for c in name)
    pre: len(desc) <= 3 and all(c in TEXTC for c in desc) and desc == desc.strip()
    post: _
    """
    w = Schema2Wiki(); w._initialize_output(); w._strip_out_in_library = False
    w._write_entry(E(name, {}, desc), None)
    row = w.output[-1]
    r = SchemaLoaderWiki.__new__(SchemaLoaderWiki)
    r._schema = HedSchema(); r.fatal_errors = []; r.name = "x"
    row2 = r._remove_nowiki_tag_from_line(1, row)
    nm, idx = r._get_tag_name(row2)
    attrs, idx = r._get_tag_attributes(1, row2, idx)
    d, _ = r._get_line_section(row2, idx)
    return nm == name and attrs == {} and (d or "").strip() == desc and not r.fatal_errors
