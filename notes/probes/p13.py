import chx; chx.install()
from hed.models.hed_string import HedString
from hed.validator.util.group_util import GroupValidator

class NoSchema:
    """Schema stub: nothing is known, every tag stays as written."""
    _namespace = ""
    def find_tag_entry(self, tag, schema_namespace=""):
        return None, None, []

S = NoSchema()
def _l(c): return len(c) == 1 and c in "abc"

def dup_order(x1: str, x2: str, x3: str, x4: str, x5: str) -> bool:
    """
    pre: _l(x1) and _l(x2) and _l(x3) and _l(x4) and _l(x5)
    post: _
    """
    gv = GroupValidator(S)
    a = HedString(f"({x1},{x2}),({x3}),({x4},{x5})", S)
    b = HedString(f"({x1},{x2}),({x4},{x5}),({x3})", S)
    ia = sorted(i['code'] for i in gv._check_for_duplicate_groups(a))
    ib = sorted(i['code'] for i in gv._check_for_duplicate_groups(b))
    return ia == ib
