from typing import Dict, List
import bisect
from hed.schema import hed_cache_lock as cl
from hed.tools.analysis.event_manager import EventManager
from hed.tools.bids.bids_sidecar_file import BidsSidecarFile

class StubLock:
    def __init__(self, *a, **k): self.acquired = False; self.released = False
    def acquire(self, *a, **k): self.acquired = True
    def release(self): self.released = True
class StubPL:
    Lock = StubLock
    class exceptions:
        class LockException(Exception): pass

def lock_interval(now: float, last: float, threshold: int) -> bool:
    """
    pre: 0 <= last <= now <= 1000000
    pre: 0 <= threshold <= 5000
    post: _
    """
    saved = (cl.time, cl.portalocker, cl._read_last_cached_time, cl._write_last_cached_time, cl.os)
    class T:  # stub clock
        @staticmethod
        def time(): return now
    class O:
        class path:
            @staticmethod
            def join(*a): return "/".join(a)
        @staticmethod
        def makedirs(*a, **k): pass
    written = []
    cl.time = T; cl.portalocker = StubPL; cl._read_last_cached_time = lambda f: last
    cl._write_last_cached_time = lambda t, f: written.append(t); cl.os = O
    try:
        lk = cl.CacheLock("/c", write_time=True, time_threshold=threshold)
        try:
            with lk:
                entered = True
        except cl.CacheException:
            entered = False
        return entered == (not (now - last < threshold)) and (written == [now]) == entered
    finally:
        cl.time, cl.portalocker, cl._read_last_cached_time, cl._write_last_cached_time, cl.os = saved

class Ev:
    def __init__(self, s, e, c): self.start_index = s; self.end_index = e; self.contents = c

def context(n: int, s1: int, e1: int, s2: int, e2: int) -> bool:
    """
    pre: 1 <= n <= 4
    pre: 0 <= s1 < n and s1 <= e1 <= n and 0 <= s2 < n and s2 <= e2 <= n
    post: _
    """
    em = EventManager.__new__(EventManager)
    em.hed_strings = [None] * n
    em.event_list = [[] for _ in range(n)]
    em.event_list[s1].append(Ev(s1, e1, "X"))
    em.event_list[s2].append(Ev(s2, e2, "Y"))
    em._extract_context()
    for i in range(n):
        ctx = em.contexts[i].split(",") if em.contexts[i] else []
        if ("X" in ctx) != (s1 < i < e1): return False
        if ("Y" in ctx) != (s2 < i < e2): return False
    return True

def bis(o: List[int], t: int) -> bool:
    """
    pre: len(o) <= 4 and all(0 <= x <= 10 for x in o) and all(a <= b for a, b in zip(o, o[1:]))
    pre: 0 <= t <= 12
    post: _
    """
    k = bisect.bisect_left(o, t)
    return all(x < t for x in o[:k]) and all(x >= t for x in o[k:])

class BF:
    def __init__(self, path, suffix, ents): self.file_path = path; self.suffix = suffix; self.entity_dict = ents

def sidecar_for(se: Dict[str, str], fe: Dict[str, str], deep: bool) -> bool:
    """
    pre: len(se) <= 2 and len(fe) <= 2
    pre: all(len(k) <= 1 and len(v) <= 1 for k, v in se.items()) and all(len(k) <= 1 and len(v) <= 1 for k, v in fe.items())
    post: _
    """
    sc = BidsSidecarFile.__new__(BidsSidecarFile)
    sc.file_path = "/d/sub-1/x_events.json" if deep else "/d/x_events.json"
    sc.suffix = "events"; sc.entity_dict = se
    f = BF("/d/sub-1/f_events.tsv", "events", fe)
    exp = all((k in fe) and fe[k] == v for k, v in se.items())
    return sc.is_sidecar_for(f) == exp
