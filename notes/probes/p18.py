import sys
import chx; chx.install()
from mini import MINI
from hed.models.hed_tag import HedTag

def forms(s: str) -> bool:
    """
    pre: len(s) <= 3
    pre: all(32 <= ord(c) < 127 for c in s)
    post: _
    """
    t = HedTag(s, MINI)
    if not t.tag_exists_in_schema():
        return True
    r = t._extension_value
    if not s.endswith(r):
        return False
    l = HedTag(t.long_tag, MINI)
    return l._schema_entry is t._schema_entry and l.long_tag == t.long_tag
