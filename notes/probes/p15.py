from typing import Dict, List, Union, Optional
from mini import MINI
from hed.models.sidecar import Sidecar
from hed.validator.sidecar_validator import SidecarValidator
from hed.errors.error_reporter import ErrorHandler

J2 = Union[None, int, str, List[int], Dict[str, Union[None, int, str, Dict[str, Union[int, str]]]]]

def total(entry: J2) -> bool:
    """
    post: _
    """
    sc = Sidecar.__new__(Sidecar)
    sc.name = "x"; sc.loaded_dict = {"c": entry}; sc._def_dict = None; sc._extract_definition_issues = []
    sv = SidecarValidator(MINI)
    eh = ErrorHandler()
    issues = sv.validate_structure(sc, eh)
    issues += sv._validate_refs(sc, eh)
    return isinstance(issues, list)
