from hed.models.hed_string import HedString

def check_split(s: str) -> bool:
    """
    pre: len(s) <= 5
    post: _
    """
    res = HedString.split_hed_string(s)
    # spans tile the string
    pos = 0
    for is_tag, (a, b) in res:
        if a != pos or b <= a:
            return False
        pos = b
        if is_tag:
            seg = s[a:b]
            if seg[0] == " " or seg[-1] == " ":
                return False
            for ch in seg:
                if ch in ",()":
                    return False
        else:
            for ch in s[a:b]:
                if ch not in ",() ":
                    return False
    return pos == len(s)

def check_split_false(s: str) -> bool:
    """
    pre: len(s) <= 5
    post: not _
    """
    return check_split(s)
