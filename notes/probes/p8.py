from typing import List
from hed.validator.util.group_util import GroupValidator
NAMES = ["Definition", "Onset", "Offset", "Inset", "Delay", "Duration", "X"]
class ST:
    def __init__(self, n, top, grp):
        self.short_base_tag = NAMES[n]; self._top = top; self._grp = grp
        self.org_tag = NAMES[n]; self.tag = NAMES[n]
    def base_tag_has_attribute(self, a):
        return self._top if a == "topLevelTagGroup" else (self._grp if a == "tagGroup" else False)
    def __str__(self): return self.org_tag

def level(n1: int, t1: bool, g1: bool, n2: int, t2: bool, g2: bool, two: bool, is_top: bool, is_group: bool) -> bool:
    """
    pre: 0 <= n1 < 7 and 0 <= n2 < 7
    post: _
    """
    tags = [ST(n1, t1, g1)] + ([ST(n2, t2, g2)] if two else [])
    issues = GroupValidator.check_tag_level_issue(tags, is_top, is_group)
    codes = sorted(i['code'] for i in issues)
    exp = []
    for t in tags:
        if t._grp and not is_group: exp.append("TAG_GROUP_ERROR")
    return codes.count("TAG_GROUP_ERROR") == len(exp)
