from typing import List
from hed.models.query_handler import QueryHandler
from hed.models.query_util import Token

TEXTS = ["a", "&&", "||", "(", ")", "[", "]", "{", "}", ":", "~", "?", "??", "???", '"a"', "a*"]
OPEN = {"(": ")", "[": "]", "{": "}"}

def parse(kinds: List[int]) -> bool:
    """
    pre: len(kinds) <= 4
    pre: all(0 <= k < 16 for k in kinds)
    post: _
    """
    texts = [TEXTS[k] for k in kinds]
    q = " ".join(texts)
    # oracle: balanced?
    stack = []
    balanced = True
    for t in texts:
        if t in OPEN: stack.append(OPEN[t])
        elif t in (")", "]", "}"):
            if not stack or stack.pop() != t: balanced = False
    if stack: balanced = False
    try:
        QueryHandler(q)
        compiled = True
    except ValueError:
        compiled = False
    return balanced or not compiled
