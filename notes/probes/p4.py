import chx; chx.install()
from typing import Dict, List, Tuple
from hed.validator.onset_validator import OnsetValidator

class T:
    def __init__(self, ext, base):
        self.extension = ext
        self.short_base_tag = base
        self.org_tag = base

KINDS = ["Onset", "Offset", "Inset"]
def _ok(s): return len(s) <= 3 and all(32 <= ord(c) < 127 for c in s)

def step(n1: str, n2: str, open1: bool, open2: bool, name: str, kind: int) -> bool:
    """
    pre: 0 <= kind <= 2
    pre: _ok(n1) and _ok(n2) and _ok(name)
    pre: n1 == n1.casefold() and n2 == n2.casefold() and n1 != n2
    post: _
    """
    ov = OnsetValidator()
    st = {}
    if open1: st = {k: k for k in [n1]}
    if open2: st = {k: k for k in ([n1, n2] if open1 else [n2])}
    ov._onsets = st
    key = name.casefold()
    was_open = (open1 and key == n1) or (open2 and key == n2)
    issues = ov._handle_onset_or_offset(T(name, "Def"), T("", KINDS[kind]))
    now_open = key in ov._onsets
    # frame: other names unchanged
    if n1 != key and (n1 in ov._onsets) != open1: return False
    if n2 != key and (n2 in ov._onsets) != open2: return False
    if kind == 0:
        return issues == [] and now_open
    if kind == 1:
        if was_open:
            return issues == [] and not now_open
        return len(issues) == 1 and issues[0]['code'] == 'TEMPORAL_TAG_ERROR' and not now_open
    if was_open:
        return issues == [] and now_open
    return len(issues) == 1 and issues[0]['code'] == 'TEMPORAL_TAG_ERROR' and not now_open
