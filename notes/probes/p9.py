import chx; chx.install()
from mini import MINI
from hed.models.hed_string import HedString

def _alpha(s): return all(c in "ab/,() #3s" for c in s)

def validate_total(s: str) -> bool:
    """
    pre: len(s) <= 3 and _alpha(s)
    post: _
    """
    hs = HedString(s, MINI)
    issues = hs.validate(allow_placeholders=False)
    for i in issues:
        if 'code' not in i or 'message' not in i or 'severity' not in i:
            return False
        if 'char_index' in i:
            if not (0 <= i['char_index'] <= i['char_index_end'] <= len(s)):
                return False
    return True
