#!/usr/bin/env python3
"""Fill seeded/<id>/meta.json 'check_result' from the last tools/run_seed.sh output (.check_output.txt)."""
import json, os, re, sys
VERIF = os.path.dirname(os.path.dirname(os.path.abspath(__file__)))
for name in sorted(os.listdir(os.path.join(VERIF, "seeded"))):
    d = os.path.join(VERIF, "seeded", name)
    mp, op = os.path.join(d, "meta.json"), os.path.join(d, ".check_output.txt")
    if not os.path.isfile(mp) or not os.path.isfile(op):
        continue
    meta = json.load(open(mp))
    out = open(op, errors="replace").read()
    viol = re.findall(r"counterexample: (.*)", out)
    summ = re.findall(r"^(C\d+ quick: .*)$", out, re.M)
    herr = len(re.findall(r"^HARNESS-ERROR", out, re.M))
    meta["check_result"] = {
        "command": f"tools/run_seed.sh {name}  (= ./check {meta.get('breaks', name)} --tier quick against a scratch worktree of /repo HEAD with patch.diff applied)",
        "summary": summ[-1] if summ else "",
        "violations_reported": len(viol),
        "example_counterexamples": viol[:3],
        "harness_errors": herr,
        "detected": bool(viol),
    }
    json.dump(meta, open(mp, "w"), indent=1)
    print(name, "detected" if viol else "NOT detected", len(viol), summ[-1][:90] if summ else "")
