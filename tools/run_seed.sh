#!/bin/sh
# usage: tools/run_seed.sh <seed-name> [extra ./check args]
# Applies seeded/<name>/patch.diff to a scratch worktree of /repo's HEAD, runs the property's quick check against it
# (VP_REPO points the checks at the worktree; /repo itself is not touched), removes the worktree.
set -e
NAME="$1"; shift
VERIF="$(cd "$(dirname "$0")/.." && pwd)"
PROP="$(python3 -c "import json,sys;print(json.load(open('$VERIF/seeded/$NAME/meta.json'))['breaks'])")"
WT="/tmp/seedwt_$NAME"
git -C /repo worktree remove --force "$WT" 2>/dev/null || true
git -C /repo worktree add -q "$WT" HEAD
git -C "$WT" apply "$VERIF/seeded/$NAME/patch.diff"
set +e
( cd "$VERIF" && VP_REPO="$WT" ./check "$PROP" --tier quick --no-evidence "$@" ) > "$VERIF/seeded/$NAME/.check_output.txt" 2>&1
RC=$?
set -e
git -C /repo worktree remove --force "$WT"
grep -v "SyntaxWarning\|refs = re" "$VERIF/seeded/$NAME/.check_output.txt" | grep -a "quick:\|VIOLATION\|HARNESS-ERROR" | head -8
echo "seed $NAME: check exit code $RC"
