#!/usr/bin/env python3
"""Run /repo's pinned baseline suite (guard OFF) and compare with /root/.vp/BASELINE.json stable_pass."""
import json, os, subprocess, sys, tempfile
import xml.etree.ElementTree as ET

base = json.load(open("/root/.vp/BASELINE.json"))
env = dict(os.environ)
env.pop("HED_PYTHON_VERIF", None)
with tempfile.TemporaryDirectory() as d:
    x = os.path.join(d, "j.xml")
    cmd = base["cmd"].replace("<file>", x).replace("cd /repo", "cd " + os.environ.get("VP_REPO", "/repo"))
    p = subprocess.run(cmd, shell=True, env=env, capture_output=True, text=True)
    passed = set()
    for tc in ET.parse(x).getroot().iter("testcase"):
        if not any(c.tag in ("failure", "error", "skipped") for c in tc):
            passed.add(f"{tc.get('classname')}::{tc.get('name')}")
if len(sys.argv) > 1:
    open(sys.argv[1], "w").write("\n".join(sorted(passed)))
missing = [t for t in base["stable_pass"] if t not in passed]
print(f"baseline: {len(base['stable_pass']) - len(missing)}/{len(base['stable_pass'])} stable tests pass; "
      f"{len(passed)} passed in total")
for t in missing[:40]:
    print("  NOT PASSING:", t)
sys.exit(1 if missing else 0)
