#!/usr/bin/env python3
"""Apply one exact-text edit to a file under /repo preserving its line endings, then commit.
usage: repofix.py <relpath> <old-file> <new-file> <message-file>   (old/new given with LF line ends)"""
import subprocess, sys
rel, oldf, newf, msgf = sys.argv[1:5]
p = "/repo/" + rel
s = open(p, newline="").read()
old, new = open(oldf).read(), open(newf).read()
if "\r\n" in s:
    old, new = old.replace("\n", "\r\n"), new.replace("\n", "\r\n")
assert s.count(old) == 1, f"old text occurs {s.count(old)} times in {rel}"
open(p, "w", newline="").write(s.replace(old, new))
if msgf != "-":
    import os; subprocess.run(["git", "-C", "/repo", "commit", "-qaF", os.path.abspath(msgf)], check=True)
    print(subprocess.run(["git", "-C", "/repo", "log", "--oneline", "-1"], capture_output=True, text=True).stdout.strip())
