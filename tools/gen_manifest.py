#!/usr/bin/env python3
"""Regenerate MANIFEST.json from the table below (run after adding/removing a claimed check)."""
import json
import os

VERIF = os.path.dirname(os.path.dirname(os.path.abspath(__file__)))
TECH = "CrossHair symbolic execution of the real functions + z3, per-cell path-tree exhaustion, concrete replay"

# property -> (DESIGN section, level text, level note)
CLAIMED = {
    "C02": ("3/C02",
            "Bounded, solver-decided: for every Unicode string up to the stated length (quick 4-5, thorough 5-8) the real "
            "tokenizer/tree builder is executed symbolically and compared with a reference parser; each cell is "
            "discharged only when CrossHair exhausts its path tree. Right level: the parser is a character-class "
            "scanner, so one path stands for all strings with that class pattern.",
            "NoSchema stub (no tag lookup); split_into_groups recompiled with `is`->`==` on characters; CrossHair's "
            "str model and z3 trusted; nothing claimed beyond the length bound."),
    "C18": ("3/C18",
            "Bounded, solver-decided crash-point and restore checking: BackupManager's real code runs on an in-memory "
            "file system whose crash index, torn-write cut, file contents and operation selectors are symbolic; z3 "
            "decides for every crash step (all <=30 steps of an uninterrupted run), every torn prefix in the bound "
            "and every content that a later manager never lists a half-valid backup, and that restore is exact, "
            "selective and idempotent. Right level: interruption points are an integer the solver ranges over.",
            "MemFS stub semantics (atomic per step, program-order durability, no fsync reordering); fixed file "
            "names/tasks; contents <=2 chars (copied, never branched on); CLI/pandas paths outside."),
    "C19": ("3/C19",
            "Bounded, solver-decided: (a) the lock / refresh-interval protocol of CacheLock for every integer clock "
            "value and threshold with a stub lock table (held only between acquire and release) - refusal iff too "
            "recent or busy, lock really held inside the body, second holder refused, released and timestamp written "
            "iff write_time; (b) cache population interrupted at every file-system step (torn copies included), "
            "optionally followed by a second interrupted population, after which every bundled version must load "
            "with complete content. True process interleavings are NOT decided (single-threaded engine).",
            "stub portalocker/clock contracts; MemFS semantics; two bundled files with 1-2 char contents; "
            "concurrent interleavings and the network refresh path are outside the claim."),
    "C03": ("3/C03",
            "Bounded, solver-decided on a tiny-name schema loaded by the real loader: for every printable-ASCII tag "
            "text up to the stated length (quick 3-4, thorough 4-6) the real resolver (find_tag_entry family, HedTag "
            "canonical forms, namespace variant on a two-schema group) is executed symbolically and compared with an "
            "independent tree-walk resolver; long/short conversion inverse+idempotent, case variants, verbatim suffix.",
            "mini schema stands for the shapes of the bundled vocabularies (one-letter node names; each structural "
            "feature occurs once); ASCII only (casefold accelerator); table construction (_get_tag_forms) runs "
            "concretely at load."),
    "C04": ("3/C04",
            "Bounded, solver-decided relational kernels: (1) for fixed annotation shapes with symbolic one-letter tags "
            "(incl. case variants) written in every sibling order, the real duplicate check reports exactly one "
            "repeat per extra equal sibling - so the multiset of codes is order-invariant and no repeat is missed; "
            "(2) inserting a blank next to any comma/parenthesis of any printable-ASCII string up to the bound leaves "
            "delimiter codes and tag texts unchanged. Spelling invariance is decided in C03/C01 on the mini schema.",
            "NoSchema stub; fixed shapes with <=5 letters over {a,b,A}/{a,b,A,B}; trees built by public constructors; "
            "whole-annotation rewrites under bundled schemas are outside."),
    "C20": ("3/C20",
            "Bounded, solver-decided: EventManager's context extraction, duration end index (bisect), onset/offset "
            "scan and the whole _create_event_list loop are executed on stub rows with symbolic integer onsets, "
            "durations, start/end indices and marker names, against the reference 'processes that started strictly "
            "earlier and have not ended'. One recorded known finding (same-onset rows) is excluded from the search "
            "and replayed concretely.",
            "stub rows/tags exposing what the kernels read; pandas/df_util/HedString glue swapped for pass-throughs; "
            "integer time values (float() identity on ints); histories of <=3-4 rows; Delay shifting and "
            "needs_sorting are pandas and outside."),
    "C06": ("3/C06",
            "Bounded, solver-decided at cell and row level: the real value/category handlers, replace_ref (regex sub "
            "with callback), the transform / curly-brace / row-join code of BaseInput run on a small frame stub with "
            "symbolic cell texts and template surroundings, against a reference assembler and an independent list "
            "grammar (a removed reference must leave a delimiter-well-formed annotation); repeated assembly agrees "
            "and neither the frame nor the sidecar dict changes.",
            "frame stub gives df[...]/transform/apply the pandas meaning for lists of str; fixed 6-column two-row "
            "file shape; pieces <=2-4 chars; pandas dtype/index glue and file reading are outside."),
    "C10": ("3/C10",
            "Bounded, solver-decided inductive step: from an arbitrary open-scope state (two other names, each open or "
            "not, keys case-folded) one Onset/Offset/Inset marker with any symbolic name must be judged and must "
            "update the state exactly as the reference open-set semantics says, other names untouched and the "
            "invariant preserved - which covers histories of any length within the name-length bound; plus time "
            "points with up to two markers (same name twice => one error per extra use, no state change) and the "
            "structural onset-group rules on 324 fixed shapes over the mini schema.",
            "stub tags / stub time-point strings; message text of three errors muted (formats symbolic names); names "
            "<=2 chars quick, <=4 thorough; Delay shifting, equal-onset merging and row mapping are pandas and outside."),
    "C01": ("3/C01",
            "Bounded, solver-decided rule kernels (the whole validator on raw symbolic text is out of reach): delimiter/"
            "parenthesis rules for every printable-ASCII string up to the bound against a token grammar; forbidden "
            "characters for every Unicode string; tag-group/top-level placement for every combination of reserved "
            "names and attribute bits on 1-3 tags; per-tag rules (unknown tag, forbidden extension, extension term "
            "that is a node, requireChild leaf, stray placeholder, foreign prefix) for every tag text up to the bound "
            "on the mini schema against an independent resolver; issue kind -> published code. Value/unit rules are "
            "decided under C11, duplicates under C04, Def rules under C09, temporal rules under C10.",
            "mini schema stands for the shapes of the bundled vocabularies; stub tags for the placement kernel; "
            "ASCII where casefold is on the path; annotations longer than the bounds and the 1200-tag vocabularies "
            "are outside."),
    "C05": ("3/C05",
            "Bounded, solver-decided for the text grammar shared by MediaWiki and TSV: the real writer functions write "
            "one entry/attribute string/header line from symbolic names, attribute values and descriptions (over the "
            "schema's own character classes), the real reader functions read it back, and both an independent line "
            "reader and the library's own entry equality must agree with the original; a schema merged from several "
            "libraries refuses to save through all entry points; the format-independent traversal (real "
            "process_schema/_output_units/_output_section/_should_skip on a recording writer) hands the writers "
            "exactly the library entries for an unmerged save of a partnered schema and every entry otherwise, for "
            "every inLibrary combination on 3 unit classes, 5 units, 2 value classes. XML, TSV files (pandas), whole-schema and "
            "cross-format equality are NOT decided.",
            "one line at a time; pieces of 2-5 characters; attribute names concrete per shape; the tag-name regex is "
            "answered from the writer's layout during symbolic runs (real regex on replay); one recorded known "
            "finding (literal <nowiki> token inside a description)."),
    "C07": ("3/C07",
            "Bounded, solver-decided location arithmetic only: for a row combined from 2-3 symbolic cells every tag/"
            "group span selects exactly that item's text inside its own cell's stretch of the comma-joined row text; "
            "equal-onset grouping (maximal runs, n/a skipped); context-stack stamping of row/column labels. Totality "
            "of file validation, row-by-row equality and row shuffling go through pandas and are NOT decided.",
            "NoSchema stub; cells of 1-3 characters; integer onsets in a small range (the function hashes them)."),
    "C13": ("3/C13",
            "Bounded, solver-decided on a two-schema group (mini schema unprefixed and as 'p:'): namespace extraction "
            "for every Unicode string up to the bound; 'p:'+t in the group is judged exactly as t against p's schema "
            "alone (same node, remainder, issue codes, resolved inside the right member) and unprefixed t as against "
            "the unprefixed schema; unloaded / non-alphabetic prefixes are errors; set_schema_prefix syntax; two "
            "schemas under one prefix and the same library twice in a version list are refused.",
            "mini schema twice instead of real library pairings; partnered merging and clash detection between real "
            "libraries (file loading) are outside; prefix/version texts of 1-3 characters."),
    "C16": ("3/C16",
            "Bounded, solver-decided: BIDS file-name parsing (totality, round trip), the applicability predicate "
            "(same suffix, ancestor-or-self directory, entity subset with equal values), the root-first chain walk, "
            "the deeper-overrides-shallower merge, and the real BidsFileGroup constructor's choice of merged sidecar "
            "per data file, on symbolic entity maps/suffixes/directories against an independent BIDS inheritance "
            "reference. Directory discovery (os.walk), dataset validation and the CLI are NOT decided.",
            "stubbed discovery (given file objects), module-local open/json for sidecar contents; 0-3 sidecars, "
            "1-character labels (quick)."),
    "C08": ("3/C08",
            "Bounded, solver-decided: (a) totality - the public Sidecar(...).validate(schema) on every decoded JSON "
            "document built from symbolic selectors to depth 3 (value kinds per level, short strings over braces/#/"
            "letters, special keys HED and n/a) returns a list of well-formed issues and never raises; a non-object "
            "top level is refused at load with the documented file error; (b) each structural rule against an "
            "independent reading (column kinds, category keys, '#' counts, brace balance/nesting positions, unknown/"
            "self/nested references): exactly one broken rule => that rule's code at error severity, none broken => "
            "no structure code. One recorded known finding ({}-style references) is excluded and replayed.",
            "mini schema; keys from a small alphabet (hashed); strings stored directly under HED are realised before "
            "pandas sees them; per-entry HED string validation is C01's subject."),
    "C12": ("3/C12",
            "Bounded, solver-decided: for issues produced by the real error wrappers on real tags parsed from "
            "symbolic text, character offsets lie inside the text and the tag span and select exactly the quoted "
            "fragment (also for rows combined from several cells), the location suffix occurs exactly once after one "
            "or two decoration passes and through the real HedValidator.validate staging, the tag-name character "
            "check (real check_tag_invalid_chars) reports one issue per offending character occurrence with offsets "
            "selecting that occurrence, errors-only equals the "
            "error subset in order, sort_issues is a stable permutation ordered by file/column/key/row, and "
            "replace_tag_references leaves JSON-serialisable values with unchanged codes.",
            "NoSchema stub; the two validator stage methods are overridden to return issues built by the real "
            "format_error (whole-validator runs on symbolic text are out of reach); texts of 1-5 characters."),
    "C15": ("3/C15",
            "Bounded, solver-decided: the real query parser on every token-kind sequence up to the bound (only "
            "ValueError may escape, every sentence of a reference grammar compiles, anything that compiles has "
            "balanced grouping symbols), tied to the real tokenizer; and the algebra laws (A||B iff A or B, A&&B "
            "symmetric/associative/implies both via distinct tags, term/quoted/star modes, sibling-permutation "
            "invariance, repeated search agrees, annotation unchanged) on fixed annotation shapes whose tag letters "
            "are symbolic, over a term-stub schema; the three term modes also on tags carrying a one-character "
            "extension or value (a bare term never matches through it).",
            "token kinds symbolic, texts looked up lazily (the regex tokenizer realises); queries in the algebra "
            "harnesses are concrete and selected by small ints; shapes of <=5 tags; depth-4 grammar x depth-4 "
            "annotations and query_service (pandas) are outside."),
    "C09": ("3/C09",
            "Bounded, solver-decided on the mini schema: acceptance of a definition into a DefinitionDict for a "
            "symbolic name and 12 body shapes against the reference predicate (one group, <=1 content group, no '/' "
            "or '#' in the name, no inner Def*, exactly one '#' on a value-taking tag iff '/#'; duplicates reported "
            "once and ignored); after every expand/shrink/copy in any sequence of <=3 operations str() terminates and "
            "equals the reference rendering (expand idempotent, shrink restores, copies independent); a written "
            "Def-expand group validates iff it equals the expansion up to sibling order. One recorded known finding "
            "(unplugged placeholder content accepted) is excluded and replayed.",
            "five fixed definitions and fixed annotation positions; names/values of 1-3 characters; validate is not "
            "interleaved into the operation sequence; df_util column variants and def_expand_gather (pandas) outside."),
    "C11": ("3/C11",
            "Bounded, solver-decided on the mini schema with the real 8.3.0 timeUnits table (and a pruned variant with "
            "a currency prefix unit): for every unit text up to the bound, accepted iff the reference (built from the "
            "MediaWiki text: names singular/plural in any case, symbols exact case, SI prefixes where permitted) "
            "spells a unit, and then value_as_default_unit is defined and equals number x factor for the fixed number "
            "3, None for an unrecognised unit and never an exception; value x unit agreement between validation and "
            "conversion; prefix units in front of the number; the numeric pattern over every Unicode string up to the "
            "bound; bare numbers draw only the missing-unit warning.",
            "float(<symbolic text>) is modelled by an exact ASCII acceptance recogniser with an abstract value (no "
            "assertion depends on the product except for the fixed number); linearity over IEEE doubles and the "
            "60x40 unit/prefix combinations of every bundled schema are outside."),
    "C14": ("3/C14",
            "Bounded, solver-decided per attribute rule as a function of an arbitrary attribute value: conversion "
            "factor, numeric value, allowedCharacter, inLibrary, placeholder-only class attributes, deprecatedFrom "
            "(unknown / not older, own library's versions), item existence and deprecation, hedId (changed, out of "
            "range, malformed), term and description character rules, problem indexes - each against an independent "
            "reading of the rule. 'Every released schema passes' and fault seeding at every position of a real schema "
            "are concrete whole-schema runs and are NOT decided.",
            "real entry/section objects with 3 short-named entries, a namespace object for the schema header, "
            "released-version lists as harness inputs; float()/int() on symbolic text modelled exactly on ASCII."),
}

NOT_APPLICABLE = {
    "C17": "Every remodeling operation body is pandas/numpy table calls and the property is the table semantics of "
           "those calls; CrossHair realises symbolic cells at DataFrame construction, so tables could only be "
           "enumerated concretely (excluded technique); see DESIGN.md C17.",
}

PENDING_REASON = "check not built yet in this revision (harness under construction; see DESIGN.md section 3)"


def main():
    props = [json.loads(l)["id"] for l in open(os.path.join(VERIF, "properties.jsonl"))]
    checks = []
    for pid in props:
        if pid not in CLAIMED:
            continue
        ref, text, note = CLAIMED[pid]
        checks.append({
            "property_id": pid,
            "quick_cmd": f"./check {pid} --tier quick",
            "thorough_cmd": f"./check {pid} --tier thorough",
            "evidence_file": f"evidence/{pid}.json",
            "replay_cmd_template": "./check --replay {path}",
            "engine": "crosshair+z3",
            "level_claimed": {"category": "other", "text": text, "design_ref": ref},
            "level_note": note,
            "technique": TECH,
        })
    na = []
    for pid in props:
        if pid in CLAIMED:
            continue
        na.append({"property_id": pid, "reason": NOT_APPLICABLE.get(pid, PENDING_REASON)})
    man = {
        "version": 1,
        "setup_cmd": "sh ./setup.sh",
        "hooks": {"guard": "HED_PYTHON_VERIF",
                  "enable": "no source hooks exist: stubs are injected into module globals inside the harness "
                            "process only; checks always analyse /repo's working tree via PYTHONPATH",
                  "baseline_off_cmd": "python3 tools/baseline.py",
                  "source_commits": [], "add_only": True},
        "engines": [{"name": "crosshair+z3", "path": "vp/runner.py", "serves_properties": sorted(CLAIMED),
                     "kind_free_text": "CrossHair 0.0.110 symbolic execution of /repo's Python functions; every "
                                       "branch is a z3 query; per-cell exhaustion of the path tree within stated "
                                       "bounds; counterexamples replayed concretely before being reported"}],
        "checks": checks,
        "notes": "One technique only: solver-based bounded checking of the real code (CrossHair + z3). "
                 "Exit 3 = harness error (never reported as success). known_findings.json lists recorded/fixed defects.",
        "not_applicable": na,
    }
    with open(os.path.join(VERIF, "MANIFEST.json"), "w") as f:
        json.dump(man, f, indent=1)
    print("MANIFEST: claimed", [c["property_id"] for c in checks], "n/a", [x["property_id"] for x in na])


if __name__ == "__main__":
    main()
