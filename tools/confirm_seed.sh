#!/bin/sh
# usage: tools/confirm_seed.sh <PROP> <worktree> [name]
# Confirms a seeded change in a scratch worktree: (1) pinned stable tests still pass with it,
# (2) its demo passes without the change and fails with it.  Stores patch + demo under seeded/<name>/.
set -e
P="$1"; WT="$2"; NAME="${3:-$P}"
VERIF="$(cd "$(dirname "$0")/.." && pwd)"
D="$VERIF/seeded/$NAME"; mkdir -p "$D"
git -C "$WT" diff -- hed > "$D/patch.diff"
cp "$WT/demo_$P.py" "$D/demo.py"
echo "== stable tests with the change"
( cd "$VERIF" && VP_REPO="$WT" python3 tools/baseline.py ) > "$D/.tests_with.txt" 2>&1 || true
tail -3 "$D/.tests_with.txt"
echo "== demo WITH change"
set +e
( cd "$WT" && /venv/bin/python "demo_$P.py" > "$D/.demo_with.txt" 2>&1 ); RW=$?
git -C "$WT" apply -R "$D/patch.diff"
echo "== demo WITHOUT change"
( cd "$WT" && /venv/bin/python "demo_$P.py" > "$D/.demo_without.txt" 2>&1 ); RWO=$?
git -C "$WT" apply "$D/patch.diff"
set -e
echo "demo exit with=$RW without=$RWO"
tail -2 "$D/.demo_with.txt"; tail -2 "$D/.demo_without.txt"
