"""C01 — the string validation verdict agrees with the HED rules (decided as rule kernels, DESIGN §3/C01)."""
from vp import reg as R
from vp import chx, astpatch
from vp.stubs import NOSCHEMA
from models import parse_ref
from hed.models.hed_string import HedString
from hed.validator.util.string_util import StringValidator
from hed.validator.util.char_util import CharValidator
from hed.validator.util.group_util import GroupValidator
from hed.validator.util.tag_util import TagValidator
from hed.models.hed_tag import HedTag
from hed.errors.error_reporter import ErrorHandler
from hed.errors.error_types import ValidationErrors

chx.install()
astpatch.is_to_eq(HedString, "split_into_groups")
_SV = StringValidator()
_TV = TagValidator()
try:
    from vp import chx_hash
    chx_hash.install()
except ImportError:
    pass


# ------------------------------------------------------------------ K1 delimiters / parentheses
def _tokens(s):
    toks = []
    cur = False
    for ch in s:
        if ch == "," or ch == "(" or ch == ")":
            if cur:
                toks.append("t")
                cur = False
            toks.append(ch)
        elif ch == " ":
            pass
        else:
            cur = True
    if cur:
        toks.append("t")
    return toks


def _list_faults(s):
    """(empty_item, comma_missing): faults of the comma separated list grammar, parentheses aside"""
    empty = comma = False
    prev = None
    for t in _tokens(s):
        if t == "t":
            if prev == "t" or prev == ")":
                comma = True
        elif t == ",":
            if prev is None or prev == "," or prev == "(":
                empty = True
        elif t == "(":
            if prev == "t" or prev == ")":
                comma = True
        elif t == ")":
            if prev == ",":
                empty = True
        prev = t
    if prev == ",":
        empty = True
    return empty, comma


def delimiters(s: str) -> bool:
    """
    pre: len(s) <= R.N(4)
    pre: R.scell(s)
    pre: R.ascii_printable(s)
    post: _
    """
    h = HedString(s, NOSCHEMA)
    codes = [i["code"] for i in _SV.run_string_validator(h) if i["severity"] == 1]
    bal = parse_ref.balanced(s)
    empty, comma = _list_faults(s)
    if bal and not empty and not comma:
        return codes == []                       # rule-conforming delimiters: no error
    if codes == []:
        return False                             # a violated delimiter rule must be reported
    # exactly one violated rule -> an error with that rule's code
    if not bal and not empty and not comma:
        return "PARENTHESES_MISMATCH" in codes
    if bal and empty and not comma:
        return "TAG_EMPTY" in codes
    if bal and comma and not empty:
        return "COMMA_MISSING" in codes
    return True


# ------------------------------------------------------------------ K2 forbidden characters
def forbidden_chars(s: str, allow_placeholders: bool, modern: bool) -> bool:
    """
    pre: len(s) <= R.N(4)
    pre: R.env_int("VP_LEN") is None or len(s) == R.env_int("VP_LEN")
    post: _
    """
    issues = CharValidator(modern_allowed_char_rules=modern).check_invalid_character_issues(s, allow_placeholders)
    want = []
    i = 0
    for ch in s:
        bad = ch == "[" or ch == "]" or ch == "~" or ((ch == "{" or ch == "}") and not allow_placeholders)
        if not bad:
            if modern:
                bad = not ch.isprintable()
            else:
                bad = ord(ch) > 127
        if bad:
            want.append((i, "TILDES_UNSUPPORTED" if ch == "~" else "CHARACTER_INVALID"))
        i += 1
    if len(issues) != len(want):
        return False
    k = 0
    for x in issues:
        idx, code = want[k]
        if x["severity"] != 1 or x["code"] != code:
            return False
        if ("index " + str(idx)) not in x["message"]:      # the message names the offending index
            return False
        k += 1
    return True


# ------------------------------------------------------------------ K3 tag-group / top-level placement
NAMES = ["Definition", "Onset", "Offset", "Inset", "Delay", "Duration", "Other"]
TIME = ["Onset", "Offset", "Inset", "Delay", "Duration"]


class _StubTag:
    """exactly what check_tag_level_issue reads from a tag"""

    def __init__(self, n, top, grp):
        self.short_base_tag = NAMES[n]
        self.org_tag = NAMES[n]
        self.tag = NAMES[n]
        self.span = (0, len(NAMES[n]))
        self._top = top
        self._grp = grp

    def base_tag_has_attribute(self, a):
        if a == "topLevelTagGroup":
            return self._top
        if a == "tagGroup":
            return self._grp
        return False

    def __str__(self):
        return self.org_tag


def tag_level(n1: int, t1: bool, g1: bool, n2: int, t2: bool, g2: bool, n3: int, t3: bool, g3: bool, count: int,
              is_top: bool, is_group: bool) -> bool:
    """
    pre: 0 <= n1 <= 6 and 0 <= n2 <= 6 and 0 <= n3 <= 6
    pre: 1 <= count <= R.N(3)
    pre: is_group or not is_top
    pre: R.env_int("VP_K") is None or n1 == R.env_int("VP_K")
    pre: count >= 3 or (n3 == 0 and not t3 and not g3)
    pre: count >= 2 or (n2 == 0 and not t2 and not g2)
    post: _
    """
    # is_top: these tags sit directly in a top-level parenthesised group; is_group: they sit in some group
    tags = [_StubTag(n1, t1, g1), _StubTag(n2, t2, g2), _StubTag(n3, t3, g3)][:count]
    issues = GroupValidator.check_tag_level_issue(tags, is_top, is_group)
    for i in issues:
        if i["severity"] != 1:
            return False
    got = sorted([i["code"] for i in issues])
    want = []
    tops = []
    for t in tags:
        if t._grp and not is_group:
            want.append("TAG_GROUP_ERROR")               # a tag-group tag outside any group
        if t._top:
            tops.append(t.short_base_tag)
            if not is_top:
                want.append("TAG_GROUP_ERROR")           # a top-level-group tag somewhere else
                if t.short_base_tag == "Definition":
                    want.append("DEFINITION_INVALID")
                elif t.short_base_tag in TIME:
                    want.append("TEMPORAL_TAG_ERROR")
    if is_top and len(tops) > 1:
        legal_pair = (len(tops) == 2 and tops[0] != tops[1] and "Delay" in tops
                      and (tops[0] in TIME and tops[1] in TIME))
        if not legal_pair:
            want.append("TAG_GROUP_ERROR")               # several top-level tags in one group
    return got == sorted(want)


# ------------------------------------------------------------------ K3b which groups count as top-level groups
def top_level_flags(x1: str, x2: str, x3: str, x4: str) -> bool:
    """
    pre: len(x1) == 1 and len(x2) == 1 and len(x3) == 1 and len(x4) == 1
    pre: x1 in "abA" and x2 in "abA" and x3 in "abA" and x4 in "abA"
    post: _
    """
    # annotation  (x1), (x2, (x3)), x4 : a group is a top-level group iff it sits directly at the top level -
    # whatever its CONTENT (a nested group may well have the same content as a top-level one)
    from hed.models.hed_group import HedGroup
    inner = HedGroup(contents=[HedTag(x3, NOSCHEMA)])
    g1 = HedGroup(contents=[HedTag(x1, NOSCHEMA)])
    g2 = HedGroup(contents=[HedTag(x2, NOSCHEMA), inner])
    hs = HedString("", NOSCHEMA, _contents=[g1, g2, HedTag(x4, NOSCHEMA)])
    got = hs.get_all_groups(also_return_depth=True)
    if len(got) != 4:
        return False
    want = [(hs, False), (g1, True), (g2, True), (inner, False)]
    for (g, flag), (wg, wflag) in zip(got, want):
        if g is not wg or bool(flag) != wflag:
            return False
    return True


# ------------------------------------------------------------------ K4 per-tag rules on the mini schema
def _err_codes(issues):
    out = []
    for i in issues:
        if i["severity"] == 1 and i["code"] not in out:
            out.append(i["code"])
    return sorted(out)


def tag_rules(s: str, allow_placeholders: bool) -> bool:
    """
    pre: 1 <= len(s) <= R.N(3)
    pre: R.scell(s, "/#:")
    pre: R.ascii_printable(s)
    pre: "," not in s and "(" not in s and ")" not in s and s[0] != " " and s[-1] != " "
    post: _
    """
    from vp.mini import MINI
    from models import mini_rules as MR
    tag = HedTag(s, MINI)
    issues = list(tag._calculate_to_canonical_forms(MINI))
    if _err_codes(issues) == []:
        issues += _TV.run_individual_tag_validators(tag, allow_placeholders=allow_placeholders)
    got = _err_codes(issues)
    prefix, rest = MR.split_namespace(s)
    if prefix != "":
        return got == ["TAG_NAMESPACE_PREFIX_INVALID"]          # no library is loaded under any prefix
    node, rem = MR.resolve(s)
    if node is None:
        first = s[:s.find("/")] if "/" in s else s
        if MR.resolve(first)[0] is None:
            return got == ["TAG_INVALID"]                        # unknown tag
        return got == ["TAG_EXTENSION_INVALID"]                  # an extension term is itself a schema node
    want = []
    dont_care = []
    if rem == "/":
        # a trailing slash is an empty node name: that is the formatting rule's business (NODE_NAME_EMPTY, decided
        # with the delimiter kernel), the tag rules say nothing about it
        return True
    if rem == "":
        if MR.has_attr(node, "requireChild"):
            want.append("TAG_REQUIRES_CHILD")                    # leaf use of a node that requires a child
    else:
        if "#" in rem and not allow_placeholders:
            want.append("PLACEHOLDER_INVALID")                   # stray placeholder
        if not MR.takes_value(node):
            if not MR.extension_allowed(node):
                if "#" in rem:
                    if "PLACEHOLDER_INVALID" not in want:
                        want.append("PLACEHOLDER_INVALID")
                else:
                    want.append("TAG_EXTENSION_INVALID")         # forbidden extension
            if MR.has_attr(node, "requireChild"):
                dont_care.append("TAG_REQUIRES_CHILD")           # extension under a requireChild node: not stated
    got = [c for c in got if c not in dont_care]
    return got == sorted(want)


# ------------------------------------------------------------------ K5b a value under a tag with two value classes
def _is_number(v):
    """[+-]?(d+(.d*)?|.d+)([eE][+-]?d+)? over ASCII digits (the HED numeric class), as a hand-written scanner"""
    n = len(v)
    i = 0
    if i < n and (v[i] == "+" or v[i] == "-"):
        i += 1
    d1 = 0
    while i < n and 48 <= ord(v[i]) <= 57:
        i += 1
        d1 += 1
    d2 = 0
    if i < n and v[i] == ".":
        i += 1
        while i < n and 48 <= ord(v[i]) <= 57:
            i += 1
            d2 += 1
    if d1 == 0 and d2 == 0:
        return False
    if i < n and (v[i] == "e" or v[i] == "E"):
        i += 1
        if i < n and (v[i] == "+" or v[i] == "-"):
            i += 1
        d3 = 0
        while i < n and 48 <= ord(v[i]) <= 57:
            i += 1
            d3 += 1
        if d3 == 0:
            return False
    return i == n


def _is_name(v):
    """HED nameClass over ASCII: letters, digits, underscore, hyphen"""
    for ch in v:
        o = ord(ch)
        if not (48 <= o <= 57 or 65 <= o <= 90 or 97 <= o <= 122 or o == 95 or o == 45):
            return False
    return len(v) > 0


def value_two_classes(t: str) -> bool:
    """
    pre: 3 <= len(t) <= 2 + R.N(3)
    pre: t[0] == "L" and t[1] == "/"
    pre: R.env_int("VP_LEN") is None or len(t) == 2 + R.env_int("VP_LEN")
    pre: R.ascii_printable(t)
    pre: "/" not in t[2:] and "#" not in t[2:] and " " not in t[2:] and "," not in t[2:] and "(" not in t[2:] and ")" not in t[2:]
    post: _
    """
    # L/# declares numericClass AND nameClass: a value is rule-conforming iff ONE of them accepts it
    from vp.mini_values import MINI_V
    tag = HedTag(t, MINI_V)
    if tag._schema_entry is None:
        return False
    errs = _err_codes(_hv_values().validate_units(tag))
    v = t[2:]
    if _is_number(v) or _is_name(v):
        return errs == []
    return errs != []


_HVV = []


def _hv_values():
    if not _HVV:
        from vp.mini_values import MINI_V
        from hed.validator.hed_validator import HedValidator
        _HVV.append(HedValidator(MINI_V))
    return _HVV[0]


# ------------------------------------------------------------------ K7 the whole validator on fixed shapes
def _name_char(v):
    o = ord(v)
    return 48 <= o <= 57 or 65 <= o <= 90 or 97 <= o <= 122 or o == 95 or o == 45


def whole_validator(v: str, shape: int) -> bool:
    """
    pre: len(v) == 1
    pre: R.ascii_printable(v)
    pre: 0 <= shape <= 2 and (R.env_int("VP_K") is None or shape == R.env_int("VP_K"))
    post: _
    """
    # HedString.validate end to end (both stages, all validators) on a well-formed annotation with ONE free
    # character: the verdict must be "no error" exactly when the character makes the annotation rule-conforming
    from vp.mini import MINI
    if shape == 0:
        text = "A, (G, H/" + v + ")"              # a name-class value
        want = _name_char(v)
    elif shape == 1:
        text = "(Duration/" + v + " s, (B))"       # a numeric value with a unit
        want = 48 <= ord(v) <= 57
    else:
        text = "B, " + v                           # a second top-level tag
        lo = v.lower()
        want = lo == "a" or lo == "c" or lo == "e" or lo == "f" or lo == "h" or lo == "u"
    issues = HedString(text, MINI).validate(allow_placeholders=False)
    if not isinstance(issues, list):
        return False
    errs = [i for i in issues if i["severity"] == 1]
    return (errs == []) == want


# ------------------------------------------------------------------ K6 issue kind -> published code
KINDS = [ValidationErrors.NO_VALID_TAG_FOUND, ValidationErrors.INVALID_PARENT_NODE, ValidationErrors.HED_TAG_GROUP_TAG,
         ValidationErrors.HED_TOP_LEVEL_TAG, ValidationErrors.TAG_EXTENSION_INVALID, ValidationErrors.TAG_REQUIRES_CHILD]
DEFAULT_CODE = ["TAG_INVALID", "TAG_EXTENSION_INVALID", "TAG_GROUP_ERROR", "TAG_GROUP_ERROR", "TAG_EXTENSION_INVALID",
                "TAG_REQUIRES_CHILD"]


def published_code(kind: int, override: str, use_override: bool) -> bool:
    """
    pre: 0 <= kind <= 5
    pre: 1 <= len(override) <= 3
    post: _
    """
    tag = _StubTag(6, False, False)
    kw = {}
    if kind == 1:
        kw = {"index_in_tag": 0, "index_in_tag_end": 1, "expected_parent_tag": "X"}
    elif kind == 0:
        kw = {"index_in_tag": 0, "index_in_tag_end": 1}
    issue = ErrorHandler.format_error(KINDS[kind], tag, actual_error=override if use_override else None, **kw)[0]
    if issue["severity"] != 1 or not issue["message"]:
        return False
    return issue["code"] == (override if use_override else DEFAULT_CODE[kind])


_STR = ["NoSchema stub", "split_into_groups recompiled with `is` -> `==` on characters"]

HARNESSES = [
    R.H("delimiters",
        ["hed.validator.util.string_util.StringValidator.run_string_validator",
         "hed.validator.util.string_util.StringValidator.check_delimiter_issues_in_hed_string",
         "hed.validator.util.string_util.StringValidator.check_count_tag_group_parentheses"],
        quick=R.tier(cells=R.str_cells(4, split1_from=3, split2_from=4), env={"VP_N": 4}, timeout=200,
                     bound="every printable-ASCII string s, len <= 4"),
        thorough=R.tier(cells=R.str_cells(5, split1_from=3, split2_from=4), env={"VP_N": 5}, timeout=1500,
                        path_timeout=60, bound="every printable-ASCII string s, len <= 5"),
        what="no delimiter/parenthesis error iff the reference list grammar accepts; a single violated rule is "
             "reported with its code (PARENTHESES_MISMATCH / TAG_EMPTY / COMMA_MISSING)",
        oracle="inline token grammar (_tokens/_list_faults) + models/parse_ref.balanced", stubs=_STR,
        outside="strings longer than the bound; non-ASCII blanks"),
    R.H("forbidden_chars", ["hed.validator.util.char_util.CharValidator.check_invalid_character_issues",
                            "hed.validator.util.char_util.CharValidator._report_invalid_character_error"],
        quick=R.tier(cells=R.int_cells("VP_LEN", 0, 2), env={"VP_N": 2}, timeout=300,
                     bound="every Unicode string s, len <= 2, both placeholder modes, both character rule sets"),
        thorough=R.tier(cells=R.int_cells("VP_LEN", 0, 4), env={"VP_N": 4}, timeout=1800,
                        bound="every Unicode string s, len <= 4"),
        what="exactly one error per index holding a forbidden character ([]~, {} unless placeholders are allowed, "
             "non-printable under 8.3 rules / non-ASCII under legacy rules), code CHARACTER_INVALID "
             "(TILDES_UNSUPPORTED for '~'), in index order, the message naming that index",
        oracle="inline per-character predicate", stubs=[], outside="longer strings"),
    R.H("tag_level", ["hed.validator.util.group_util.GroupValidator.check_tag_level_issue"],
        quick=R.tier(cells=R.int_cells("VP_K", 0, 6), env={"VP_N": 2}, timeout=300,
                     bound="1-2 tags, each any of the 6 reserved names or 'Other', any tagGroup/topLevelTagGroup bits, "
                           "any placement"),
        thorough=R.tier(cells=R.int_cells("VP_K", 0, 6), env={"VP_N": 3}, timeout=1800, bound="1-3 tags"),
        what="the multiset of error codes equals the reference: tagGroup tag outside a group, top-level tag outside a "
             "top-level group (+DEFINITION_INVALID / TEMPORAL_TAG_ERROR), several top-level tags unless Delay + one "
             "temporal/duration tag",
        oracle="inline reading of the HED placement rules", stubs=["stub tags exposing exactly the attributes the kernel reads"],
        outside="which schema tags carry the attributes (bundled schemas)"),
    R.H("top_level_flags", ["hed.models.hed_group.HedGroup.get_all_groups", "hed.models.hed_group.HedGroup._check_in_group",
                            "hed.validator.util.group_util.GroupValidator.run_tag_level_validators"],
        quick=R.tier(timeout=300, bound="annotation (x1),(x2,(x3)),x4 with each xi any of {a,b,A}"),
        what="the is-top-level flag that run_tag_level_validators hands to the placement check is True exactly for "
             "the groups sitting directly at the top level, also when a nested group has the same content as one of them",
        oracle="inline (position in the tree)", stubs=["NoSchema stub; tree built with the public constructors"],
        outside="other shapes"),
    R.H("tag_rules",
        ["hed.validator.util.tag_util.TagValidator.run_individual_tag_validators",
         "hed.validator.util.tag_util.TagValidator.check_tag_exists_in_schema",
         "hed.validator.util.tag_util.TagValidator.check_for_placeholder",
         "hed.validator.util.tag_util.TagValidator.check_tag_requires_child",
         "hed.schema.hed_schema.HedSchema._find_tag_entry", "hed.schema.hed_schema.HedSchema._find_tag_subfunction",
         "hed.schema.hed_schema.HedSchema._validate_remaining_terms"],
        quick=R.tier(cells=R.str_cells(3, split1_from=2, split3_from=3, nclass=4, minlen=1), env={"VP_N": 3},
                     timeout=700, bound="every printable-ASCII tag text s (no ',()', no outer blanks), len <= 3, "
                                        "with and without placeholders allowed, on the mini schema"),
        thorough=R.tier(cells=R.str_cells(4, split1_from=2, split3_from=3, nclass=4, minlen=1), env={"VP_N": 4},
                        timeout=1800, path_timeout=60, bound="same with len <= 4"),
        what="error codes of tag identification + the individual tag validators equal the reference: unknown tag "
             "TAG_INVALID, extension term that is a schema node / extension under a non-extensible node "
             "TAG_EXTENSION_INVALID, leaf requireChild TAG_REQUIRES_CHILD, '#' without placeholders "
             "PLACEHOLDER_INVALID, foreign prefix TAG_NAMESPACE_PREFIX_INVALID, otherwise none",
        oracle="models/mini_rules.py (tree read from the MediaWiki text)",
        stubs=["mini schema (25-node tag tree) loaded by the real loader", "chx ASCII casefold accelerator",
               "chx_hash: builtin hash() without CrossHair's contract fork"],
        outside="the bundled vocabularies; value/unit text (C11); tags longer than the bound"),
    R.H("value_two_classes",
        ["hed.validator.hed_validator.HedValidator.validate_units",
         "hed.validator.util.class_util.UnitValueValidator._check_value_class",
         "hed.validator.util.class_util.UnitValueValidator.check_tag_value_class_valid",
         "hed.validator.util.char_util.CharRexValidator.is_valid_value",
         "hed.validator.util.char_util.CharRexValidator.get_problem_chars"],
        quick=R.tier(cells=R.int_cells("VP_LEN", 1, 3), env={"VP_N": 3}, timeout=300,
                     bound="tag L/<v>, every printable-ASCII value v of 1-3 characters (no blank / # , ( )), on the mini "
                           "schema variant where L/# declares numericClass and nameClass"),
        thorough=R.tier(cells=R.int_cells("VP_LEN", 1, 4), env={"VP_N": 4}, timeout=1500, bound="same with 1-4 characters"),
        what="a value under a tag with several value classes draws no error iff at least one class accepts it (a "
             "number, or a name of letters/digits/_/-); otherwise an error is reported",
        oracle="hand-written numeric scanner and name-class predicate",
        stubs=["mini schema variant vp/mini_values.py (extra node L/# with two value classes) loaded by the real loader"],
        outside="non-ASCII values; other class combinations; the bundled schemas' Loudness/#"),
    R.H("whole_validator",
        ["hed.validator.hed_validator.HedValidator.validate", "hed.validator.hed_validator.HedValidator.run_basic_checks",
         "hed.validator.hed_validator.HedValidator.run_full_string_checks", "hed.models.hed_string.HedString.validate"],
        quick=R.tier(cells=[{"VP_K": 0}, {"VP_K": 2}], timeout=600, path_timeout=60,
                     bound="two fixed annotations on the mini schema with ONE free printable-ASCII character: a "
                           "name-class value, a second top-level tag"),
        thorough=R.tier(cells=R.int_cells("VP_K", 0, 2), timeout=2400, path_timeout=120,
                        bound="three fixed annotations: also a numeric value before a unit (about 20 s of solver time "
                              "per path)"),
        what="the full two-stage validator reports no error exactly when the free character makes the annotation "
             "rule-conforming (name character / digit / one of the usable one-letter tags, not a repeat)",
        oracle="inline per-shape predicate from the HED rules and the mini tag tree",
        stubs=["mini schema", "chx / chx_hash accelerators", "split_into_groups recompiled with `is` -> `==`"],
        outside="more than one free character (out of reach: ~6 s of solver time per path); other shapes"),
    R.H("published_code", ["hed.errors.error_reporter.ErrorHandler.format_error"],
        quick=R.tier(timeout=120, bound="6 issue kinds x any override code text of 1-3 chars / no override"),
        what="the reported code is the override when given, else the kind's published HED code; severity error",
        oracle="inline table", stubs=["stub tag"], outside="the remaining registered kinds"),
]
