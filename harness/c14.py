"""C14 — schema compliance checking: the individual attribute rules on arbitrary attribute values.

Reachable part only (DESIGN.md §3/C14): each rule function of hed/schema is executed for real on a schema entry
that carries the attribute under test with a *symbolic* value; the verdict is compared with the independent
reading in models/compliance_ref.py.  "Every released schema passes" and fault seeding at every position of a
real schema are concrete whole-schema runs and are outside this claim.

Entries are real `HedSchemaEntry` / `HedTagEntry` objects (so `has_attribute`, `parent`, `section_key` are
hed-python's own); the schema argument is a namespace carrying exactly the header fields / sections the rule
reads (sections are real `HedSchemaSection` / `HedSchemaTagSection` objects filled with a handful of entries).
"""
from types import SimpleNamespace as NS

from vp import reg as R
from vp import chx, chnum, chset
from models import compliance_ref as ref

from hed.schema import schema_attribute_validators as V
from hed.schema import schema_validation_util as U
from hed.schema.schema_attribute_validator_hed_id import HedIDValidator
from hed.schema.hed_schema_entry import HedSchemaEntry, HedTagEntry
from hed.schema.hed_schema_section import HedSchemaSection, HedSchemaTagSection
from hed.schema.hed_schema_constants import HedSectionKey, HedKey

chx.install()            # ASCII-exact casefold (tag section lookups)
chnum.install_float()    # float(<symbolic str>): acceptance decided symbolically, value by CPython
chnum.install_int()      # int(<symbolic str>): symbolic for the whole ASCII grammar
chnum.install_intfmt()   # f"{<symbolic int>}" stays symbolic (messages carry ids and ranges)
chset.install()          # <symbolic char> in <concrete set>: one solver question instead of a scan

_TAGS = HedSchemaTagSection(HedSectionKey.Tags)
_KID_KEYS = ["k0", "k1"]
_PLAIN = HedSchemaSection(HedSectionKey.ValueClasses)


def _entry(attr, value, name="x"):
    e = HedSchemaEntry(name, _PLAIN)
    e.attributes[attr] = value
    return e


def _codes(issues):
    return sorted([i["code"] for i in issues])


def _agree(issues, expected):
    """issues is a list of issue dicts; if the reference decides the case its codes are exactly the expected ones"""
    if not isinstance(issues, list):
        return False
    if expected is None:
        return True
    return _codes(issues) == sorted(expected)


def _solid(s):
    """the same text on a fixed-length backing (code point list) instead of CrossHair's lazily grown one.
    CrossHair 0.0.110 defect avoided here: after `t.split(",")` and `piece == <longer concrete str>` on the pieces,
    iterating `t` again disagrees with the split (minimal case kept in the C14 report): counterexamples that do
    not reproduce.  Strings backed by a plain list of symbolic code points are not affected."""
    out = ""
    for ch in s:
        out = out + chr(ord(ch))
    return out


def _scell(s, classes):
    """partition cell of a string argument: VP_LMIN <= len(s) <= VP_LMAX, optionally the class (index in
    `classes`, len(classes) = anything else) of its first / second character (VP_C0 / VP_C1)"""
    lo, hi = R.env_int("VP_LMIN"), R.env_int("VP_LMAX")
    if lo is not None and len(s) < lo:
        return False
    if hi is not None and len(s) > hi:
        return False
    c0 = R.env_int("VP_C0")
    if c0 is not None and (len(s) < 1 or R.cls_of(s[0], classes) != c0):
        return False
    c1 = R.env_int("VP_C1")
    if c1 is not None and (len(s) < 2 or R.cls_of(s[1], classes) != c1):
        return False
    return True


def _cells(n, classes, one_upto, split1_from=None, split2_from=None, minlen=0, extra=None):
    """disjoint cover of minlen <= len <= n: one cell for minlen..one_upto, then one per length, lengths
    >= split1_from split by the class of the first character, >= split2_from also by the second"""
    k = len(classes) + 1
    cells = []
    if one_upto >= minlen:
        cells.append({"VP_LMIN": minlen, "VP_LMAX": min(one_upto, n)})
    for L in range(max(one_upto + 1, minlen), n + 1):
        if split2_from is not None and L >= max(split2_from, 2):
            cells += [{"VP_LMIN": L, "VP_LMAX": L, "VP_C0": a, "VP_C1": b} for a in range(k) for b in range(k)]
        elif split1_from is not None and L >= max(split1_from, 1):
            cells += [{"VP_LMIN": L, "VP_LMAX": L, "VP_C0": a} for a in range(k)]
        else:
            cells.append({"VP_LMIN": L, "VP_LMAX": L})
    return R.product_cells(cells, extra) if extra else cells


def _digits_limited(s, allowed):
    """every ASCII digit of s is one of `allowed` (keeps the solver's enumeration of *accepted* numerals small)"""
    for ch in s:
        c = ord(ch)
        if 48 <= c <= 57 and ch not in allowed:
            return False
    return True


# ------------------------------------------------------------------------------------------ conversionFactor
def _kf_cf_nan(s):
    return ref.classify_number(s, True) == ref.NUM_NAN


def conversion_factor_rule(s: str) -> bool:
    """
    pre: len(s) <= R.N(4)
    pre: _scell(s, _NUM_CLASSES)
    pre: R.ascii_printable(s)
    pre: _digits_limited(s, "019")
    pre: not R.known("C14-conversion-factor-nan", _kf_cf_nan(s))
    post: _
    """
    s = _solid(s)
    issues = V.conversion_factor(None, _entry(HedKey.ConversionFactor, s), HedKey.ConversionFactor)
    return _agree(issues, ref.conversion_factor_expect(s))


def numeric_value_rule(s: str) -> bool:
    """
    pre: len(s) <= R.N(4)
    pre: _scell(s, _NUM_CLASSES)
    pre: R.ascii_printable(s)
    pre: _digits_limited(s, "019")
    post: _
    """
    s = _solid(s)
    issues = V.is_numeric_value(None, _entry("someNumericAttribute", s), "someNumericAttribute")
    return _agree(issues, ref.numeric_value_expect(s))


_NUM_CLASSES = ["0", "1", "9", "-", "+", ".", " "]


# ------------------------------------------------------------------------------------------ allowedCharacter
def allowed_characters_rule(v: str) -> bool:
    """
    pre: len(v) <= R.N(5)
    pre: _scell(v, _LIST_CLASSES)
    post: _
    """
    v = _solid(v)
    issues = V.allowed_characters_check(None, _entry(HedKey.AllowedCharacter, v), HedKey.AllowedCharacter)
    return _agree(issues, ref.allowed_characters_expect(v))


_LIST_CLASSES = [",", "t", "n"]


# ------------------------------------------------------------------------------------------ inLibrary
def in_library_rule(v: str, libs: str) -> bool:
    """
    pre: 1 <= len(v) <= R.N(3)
    pre: len(libs) <= R.M(5)
    pre: _scell(libs, _LIST_CLASSES)
    post: _
    """
    v, libs = _solid(v), _solid(libs)
    issues = V.in_library_check(NS(library=libs), _entry(HedKey.InLibrary, v), HedKey.InLibrary)
    return _agree(issues, ref.in_library_expect(v, libs))


# ------------------------------------------------------------------------------------------ '#' placeholder
def placeholder_rule(name: str, has_parent: bool, n_sib: int, n_child: int) -> bool:
    """
    pre: len(name) <= R.N(4)
    pre: _scell(name, ["/", "#"])
    pre: 0 <= n_sib <= 2
    pre: 0 <= n_child <= 2
    post: _
    """
    name = _solid(name)
    e = HedTagEntry(name, _TAGS)
    e.attributes[HedKey.TakesValue] = True
    if has_parent:
        p = HedTagEntry("P", _TAGS)
        p.children["self"] = e
        for i in (0, 1):
            if i < n_sib:
                p.children[_KID_KEYS[i]] = HedTagEntry("P/" + _KID_KEYS[i], _TAGS)
        e._parent_tag = p
    for i in (0, 1):
        if i < n_child:
            e.children[_KID_KEYS[i]] = HedTagEntry(_KID_KEYS[i], _TAGS)
    issues = V.tag_is_placeholder_check(None, e, HedKey.TakesValue)
    return _agree(issues, ref.placeholder_expect(name, has_parent, n_sib, n_child))


# ------------------------------------------------------------------------------------------ deprecatedFrom
_RELEASED = {}


def _fake_get_hed_versions(local_hed_directory=None, library_name=None, check_prerelease=False):
    """environment stub for hed_cache.get_hed_versions: the released versions are an input of the harness"""
    key = library_name if library_name else ""
    if key in _RELEASED:
        return list(_RELEASED[key])
    return {}


def _is_ver(t, minor_digits=1):
    """t = major digit (1-9; 0-9 if VP_MAJOR0) + minor digits (1..minor_digits, no leading zero) + patch digit"""
    n = len(t)
    if not (3 <= n <= 2 + minor_digits):
        return False
    for ch in t:
        if not (48 <= ord(ch) <= 57):
            return False
    if n > 3 and ord(t[1]) == 48:
        return False
    if ord(t[0]) == 48 and not R.env_int("VP_MAJOR0", 0):
        return False
    return True


def _ver(t):
    return t[0] + "." + t[1:len(t) - 1] + "." + t[len(t) - 1]


def _key(t):
    return ref.version_key(t[0], t[1:len(t) - 1], t[len(t) - 1])


def _dep_cell(d, r1, r2, hv):
    if R.env_int("VP_REL", 2) == 1 and r2 != r1:      # one released version only: r2 is not a free variable
        return False
    hz = R.env_int("VP_HZ")
    if hz is not None and (ord(hv[1]) == 48) != (hz == 1):
        return False
    l1, lh = R.env_int("VP_L1"), R.env_int("VP_LH")
    if (l1 is not None and len(r1) != l1) or (lh is not None and len(hv) != lh):
        return False
    k = R.env_int("VP_WHICH")
    if k is None:
        return True
    if k == 0:
        return d == _ver(r1)
    if k == 1:
        return d != _ver(r1) and d == _ver(r2)
    return d != _ver(r1) and d != _ver(r2)


def _with_released(released, fn):
    saved = V.get_hed_versions
    _RELEASED.clear()
    _RELEASED.update(released)
    V.get_hed_versions = _fake_get_hed_versions
    try:
        return fn()
    finally:
        V.get_hed_versions = saved


def deprecated_from_rule(d: str, r1: str, r2: str, hv: str, ov: str, in_lib: bool) -> bool:
    """
    pre: 1 <= len(d) <= R.N(5)
    pre: _is_ver(r1, R.M(1)) and _is_ver(r2) and _is_ver(hv, R.M(1)) and _is_ver(ov)
    pre: _dep_cell(d, r1, r2, hv)
    pre: not in_lib or R.env_int("VP_CFG", 0) != 0
    post: _
    """
    d, r1, r2, hv, ov = _solid(d), _solid(r1), _solid(r2), _solid(hv), _solid(ov)
    cfg = R.env_int("VP_CFG", 0)
    # cfg 0: standard schema; 1: stand-alone library schema "lib"; 2: library "lib" partnered with a standard schema
    if cfg == 0:
        schema = NS(library="", version_number=_ver(hv), with_standard="")
        home = ""
    elif cfg == 1:
        schema = NS(library="lib", version_number=_ver(hv), with_standard="")
        home = "lib"
    else:
        home = "lib" if in_lib else ""
        if in_lib:
            schema = NS(library="lib", version_number=_ver(hv), with_standard=_ver(ov))
        else:
            schema = NS(library="lib", version_number=_ver(ov), with_standard=_ver(hv))
    other = "" if home == "lib" else "lib"
    e = HedTagEntry("x", _TAGS)
    e.attributes[HedKey.DeprecatedFrom] = d
    if in_lib:
        e.attributes[HedKey.InLibrary] = "lib"
    # the other library's list holds the versions the home library does NOT offer: reading it changes the verdict
    rel = [_ver(r1), _ver(r2)] if R.env_int("VP_REL", 2) == 2 else [_ver(r1)]
    issues = _with_released({home: rel, other: [_ver(ov), _ver(hv)]},
                            lambda: V.tag_is_deprecated_check(schema, e, HedKey.DeprecatedFrom))
    expected = ref.deprecated_from_expect(d, [(_ver(r1), _key(r1)), (_ver(r2), _key(r2))], _key(hv), 0)
    return _agree(issues, expected)


def deprecated_children_rule(major: str, is_tag: bool, kids: int, kids_dep: int, released: bool) -> bool:
    """
    pre: len(major) == 1 and 48 <= ord(major[0]) <= 57
    pre: 0 <= kids_dep <= kids <= 2
    pre: is_tag or kids == 0
    post: _
    """
    major = _solid(major)
    d = major + ".0.0"
    schema = NS(library="", version_number="5.0.0", with_standard="")
    if is_tag:
        e = HedTagEntry("x", _TAGS)
        for i in (0, 1):
            if i < kids:
                c = HedTagEntry("x/" + _KID_KEYS[i], _TAGS)
                if i < kids_dep:
                    c.attributes[HedKey.DeprecatedFrom] = d
                e.children[_KID_KEYS[i]] = c
    else:
        e = HedSchemaEntry("x", _PLAIN)          # units, classes, attributes have no `children`
    e.attributes[HedKey.DeprecatedFrom] = d
    issues = _with_released({"": [d] if released else []},
                            lambda: V.tag_is_deprecated_check(schema, e, HedKey.DeprecatedFrom))
    known = [(d, ref.version_key(major, "0", "0"))] if released else []
    return _agree(issues, ref.deprecated_from_expect(d, known, [5, 0, 0], kids - kids_dep))


# ------------------------------------------------------------------------------------------ item lists
def _make_sections():
    tags = HedSchemaTagSection(HedSectionKey.Tags)
    for name, dep in (("A", False), ("A/B", False), ("A/D", True)):
        e = tags._create_tag_entry(name)
        if dep:
            e.attributes[HedKey.DeprecatedFrom] = "8.0.0"
        tags._add_to_dict(name, e)
    unit_classes = HedSchemaSection(HedSectionKey.UnitClasses)
    value_classes = HedSchemaSection(HedSectionKey.ValueClasses)
    for sec in (unit_classes, value_classes):
        for name, dep in (("u", False), ("v", False), ("d", True)):
            e = sec._create_tag_entry(name)
            if dep:
                e.attributes[HedKey.DeprecatedFrom] = "8.0.0"
            sec._add_to_dict(name, e)
    return NS(tags=tags, unit_classes=unit_classes, value_classes=value_classes)


_ITEM_SCHEMA = _make_sections()
_ITEM_CLASSES = [",", "/", "A", "a"]
_KINDS = [HedSectionKey.Tags, HedSectionKey.UnitClasses, HedSectionKey.ValueClasses]
_TAG_SPELLINGS = ["A", "A/B", "B", "A/D", "D"]          # short names, long names (the section offers both)
_TAG_DEPRECATED = ["A/D", "D"]
_CLASS_NAMES = ["u", "v", "d"]
_CLASS_DEPRECATED = ["d"]


def item_exists_rule(v: str, holder_deprecated: bool) -> bool:
    """
    pre: len(v) <= R.N(4)
    pre: _scell(v, _ITEM_CLASSES)
    pre: R.ascii_printable(v)
    post: _
    """
    v = _solid(v)
    kind = R.env_int("VP_KIND", 0)
    e = _entry("someListAttribute", v)
    if holder_deprecated:
        e.attributes[HedKey.DeprecatedFrom] = "8.1.0"
    issues = V.item_exists_check(_ITEM_SCHEMA, e, "someListAttribute", _KINDS[kind])
    if kind == 0:
        expected = ref.item_list_expect(v, _TAG_SPELLINGS, _TAG_DEPRECATED, holder_deprecated)
    else:
        expected = ref.item_list_expect(v, _CLASS_NAMES, _CLASS_DEPRECATED, holder_deprecated)
    return _agree(issues, expected)


# ------------------------------------------------------------------------------------------ defaultUnits
def _du_setup():
    """real schema + real unit class entries (mini schema with the real 8.3.0 unit classes) and the reference table
    read from the schema's MediaWiki text"""
    if not _DU:
        from vp.mini_units import MINI_U, WIKI
        from models import units_ref
        _DU.append((MINI_U, units_ref.Table(WIKI)))
    return _DU[0]


_DU = []
_DU_CLASSES = ["timeUnits", "currencyUnits"]


def default_units_rule(v: str, k: int) -> bool:
    """
    pre: len(v) <= R.N(3)
    pre: _scell(v, ["s", "m", "$", "d"])
    pre: R.ascii_printable(v)
    pre: 0 <= k <= 1 and (R.env_int("VP_K") is None or k == R.env_int("VP_K"))
    post: _
    """
    # defaultUnits of a unit class must be a unit OF THAT CLASS (a unit of another class, or no unit at all, is
    # reported); an absent value is not checked
    import copy
    v = _solid(v)
    schema, table = _du_setup()
    entry = copy.copy(schema.unit_classes[_DU_CLASSES[k]])
    entry.attributes = dict(entry.attributes)
    entry.attributes[HedKey.DefaultUnits] = v
    issues = V.unit_exists(schema, entry, HedKey.DefaultUnits)
    if not isinstance(issues, list):
        return False
    own = table.match(_DU_CLASSES[k], v) is not None
    if v == "" or own:
        return [i for i in issues if i["code"] != "SCHEMA_ATTRIBUTE_VALUE_DEPRECATED"] == []
    return "SCHEMA_ATTRIBUTE_VALUE_INVALID" in _codes(issues)


# ------------------------------------------------------------------------------------------ hedId
class _Prev:
    """previous released schema of one library: get_tag_entry(name, key_class) -> entry or None"""
    def __init__(self, entry):
        self.entry = entry
        self.asked = []

    def get_tag_entry(self, name, key_class=HedSectionKey.Tags, schema_namespace=""):
        self.asked.append((name, key_class))
        return self.entry


def _kf_old_zero(prev, old):
    return prev == 3 and ref.id_value(old) == 0


def hed_id_rule(body: str, lib: bool, prev: int, old: str, has_range: bool, lo: int, hi: int) -> bool:
    """
    pre: len(body) <= R.N(2)
    pre: _scell(body, ["0", "1", "-", " "])
    pre: R.ascii_printable(body)
    pre: 0 <= prev <= 3 and (prev == 3) == (R.env_int("VP_PREV", 0) == 1)
    pre: 1 <= len(old) <= R.M(1)
    pre: R.over(old, "0123456789")
    pre: 0 <= lo <= hi <= 10 ** (R.N(2) + 1)
    pre: not R.known("C14-hedid-previous-zero", _kf_old_zero(prev, old))
    post: _
    """
    body, old = _solid(body), _solid(old)
    home = "lib" if lib else ""
    other = "" if lib else "lib"
    v = HedIDValidator.__new__(HedIDValidator)
    v.hed_schema = None
    # decoys for the library the entry does NOT belong to: consulting them changes the verdict
    decoy = HedSchemaEntry("x", _TAGS)
    decoy.attributes[HedKey.HedID] = "HED_0000007"
    v._previous_schemas = {other: _Prev(decoy)}
    v.library_data = {other: {"id_range": (7, 7)}}
    # prev 0: no previous version of the home library; 1: the element is new; 2: it had no hedId; 3: it had one
    if prev >= 1:
        old_entry = None
        if prev >= 2:
            old_entry = HedSchemaEntry("x", _TAGS)
            if prev == 3:
                old_entry.attributes[HedKey.HedID] = "HED_" + old
        v._previous_schemas[home] = _Prev(old_entry)
    if has_range:
        v.library_data[home] = {"id_range": (lo, hi)}
    e = HedSchemaEntry("x", _TAGS)
    e.attributes[HedKey.HedID] = "HED_" + body
    if lib:
        e.attributes[HedKey.InLibrary] = "lib"
    issues = v.verify_tag_id(None, e, HedKey.HedID)
    # the previous schema is asked for this element, in this element's section, and only the home library's is asked
    if v._previous_schemas[other].asked:
        return False
    if prev >= 1 and v._previous_schemas[home].asked != [("x", HedSectionKey.Tags)]:
        return False
    expected = ref.hed_id_expect(body, ref.id_value(old) if prev == 3 else None, (lo, hi) if has_range else None)
    return _agree(issues, expected)


# ------------------------------------------------------------------------------------------ character classes
# allowedCharacter of the checked entry (concrete per cell) -> the characters those groups add
_EXTRA = {"": ref.term_allowed(""), "blank": ref.term_allowed(" "), "colon,slash": ref.term_allowed(":/")}


def _extra_key():
    return ["", "blank", "colon,slash"][R.env_int("VP_EXTRA", 0)]


def term_characters_rule(t: str) -> bool:
    """
    pre: 1 <= len(t) <= R.N(4)
    pre: _scell(t, _CHAR_CLASSES)
    post: _
    """
    t = _solid(t)
    key = _extra_key()
    e = HedSchemaEntry(t, _PLAIN)
    if key:
        e.attributes[HedKey.AllowedCharacter] = key
    issues = U.validate_schema_term_new(e)
    bad = ref.term_problem_positions(t, _EXTRA[key])
    return _agree(issues, None if bad is None else [ref.CHARACTER_INVALID] * len(bad))


def description_characters_rule(t: str) -> bool:
    """
    pre: len(t) <= R.N(4)
    pre: _scell(t, _CHAR_CLASSES)
    post: _
    """
    t = _solid(t)
    e = HedSchemaEntry("x", _PLAIN)
    e.description = t
    issues = U.validate_schema_description_new(e)
    bad = ref.description_problem_positions(t)
    return _agree(issues, None if bad is None else [ref.CHARACTER_INVALID] * len(bad))


_CHAR_CLASSES = [",", "[", " ", "a", "\x7f", "\xe9"]


def problem_indexes_rule(t: str, allowed: str, nonascii: bool, adj: int) -> bool:
    """
    pre: len(t) <= R.N(4)
    pre: len(allowed) <= R.M(2)
    pre: _scell(t, _CHAR_CLASSES)
    pre: -3 <= adj <= 3
    post: _
    """
    t, allowed = _solid(t), _solid(allowed)
    # 'Finds indexes with values not in character set' ("nonascii" as an element allows every code point > 127);
    # an empty character set means "no restriction".
    cs = [c for c in allowed]
    if nonascii:
        cs.append("nonascii")
    got = U.get_problem_indexes(t, set(cs), adj)
    want = []
    if cs:
        i = 0
        for ch in t:
            if ch not in allowed and not (nonascii and ord(ch) > 127):
                want.append((ch, i + adj))
            i += 1
    return list(got) == want


# ------------------------------------------------------------------------------------------ registry
_AV = "hed.schema.schema_attribute_validators."
_STUB_ENTRY = ("entries are real HedSchemaEntry/HedTagEntry objects built by the harness with exactly the attribute "
               "under test; the schema argument is a namespace with the header fields / sections the rule reads")
_CHNUM_F = ("vp/chnum.py float model: acceptance of ASCII text by float() is decided by a recogniser of CPython's "
            "documented grammar (validated against CPython on 5.4M strings), the value is CPython's own float of the "
            "realised text; digits restricted to 0,1,9 so the solver's enumeration of accepted numerals stays small")
_CHNUM_I = "vp/chnum.py int model (ASCII grammar, symbolic value) and symbolic f-string formatting of symbolic ints"
_STUB_VERSIONS = ("hed_cache.get_hed_versions is replaced, inside schema_attribute_validators only and for the duration "
                  "of the call, by a function returning the harness's released-version lists per library (the "
                  "cache directory is environment)")
_CHSET = "vp/chset.py: one-character membership in a concrete set asked as one disjunction (exact)"


def _dep_thorough_cells():
    cells = []
    for cfg in (0, 1, 2):
        for l1 in ((3, 4) if cfg == 0 else (3,)):
            for lh in ((3, 4) if cfg == 0 else (3,)):
                for which in (0, 1):
                    for hz in ((0, 1) if lh == 3 else (0,)):      # a two-digit minor cannot start with 0
                        cells.append({"VP_CFG": cfg, "VP_WHICH": which, "VP_HZ": hz, "VP_L1": l1, "VP_LH": lh})
                cells.append({"VP_CFG": cfg, "VP_WHICH": 2, "VP_L1": l1, "VP_LH": lh})
    return cells


HARNESSES = [
    R.H("conversion_factor_rule", [_AV + "conversion_factor"],
        quick=R.tier(cells=_cells(3, _NUM_CLASSES, 2, split1_from=3), env={"VP_N": 3}, timeout=200,
                     bound="every printable-ASCII value of <= 3 characters whose digits are among 0,1,9"),
        thorough=R.tier(cells=_cells(4, _NUM_CLASSES, 2, split1_from=3, split2_from=4), env={"VP_N": 4}, timeout=900,
                        bound="every printable-ASCII value of <= 4 characters whose digits are among 0,1,9"),
        what="positive decimal / scientific / '^' numerals give no issue; zero, negative, NaN and non-numeric text give "
             "exactly SCHEMA_ATTRIBUTE_VALUE_INVALID; never raises",
        oracle="models/compliance_ref.py conversion_factor_expect (own numeral grammar; parser leniencies undecided)",
        stubs=[_STUB_ENTRY, _CHNUM_F], outside="non-ASCII numerals; longer values; non-string attribute values"),
    R.H("numeric_value_rule", [_AV + "is_numeric_value"],
        quick=R.tier(cells=_cells(3, _NUM_CLASSES, 2, split1_from=3), env={"VP_N": 3}, timeout=200,
                     bound="every printable-ASCII value of <= 3 characters whose digits are among 0,1,9"),
        thorough=R.tier(cells=_cells(4, _NUM_CLASSES, 2, split1_from=3, split2_from=4), env={"VP_N": 4}, timeout=900,
                        bound="every printable-ASCII value of <= 4 characters whose digits are among 0,1,9"),
        what="decimal / scientific numerals give no issue, non-numeric text gives exactly "
             "SCHEMA_ATTRIBUTE_VALUE_INVALID; never raises",
        oracle="models/compliance_ref.py numeric_value_expect", stubs=[_STUB_ENTRY, _CHNUM_F],
        outside="non-ASCII numerals; longer values"),
    R.H("allowed_characters_rule", [_AV + "allowed_characters_check"],
        quick=R.tier(cells=_cells(5, _LIST_CLASSES, 4), env={"VP_N": 5}, timeout=200,
                     bound="every Unicode value of <= 5 characters"),
        thorough=R.tier(cells=_cells(7, _LIST_CLASSES, 4, split1_from=6, split2_from=7), env={"VP_N": 7}, timeout=900,
                        bound="every Unicode value of <= 7 characters"),
        what="one SCHEMA_ATTRIBUTE_VALUE_INVALID per comma-separated item that is neither a single character nor a "
             "character-group name; otherwise no issue",
        oracle="models/compliance_ref.py allowed_characters_expect (own list of the 40 group names)",
        stubs=[_STUB_ENTRY], outside="group names longer than the bound (e.g. 'alphanumeric') are only seen rejected "
                                     "when misspelt within the bound"),
    R.H("in_library_rule", [_AV + "in_library_check"],
        quick=R.tier(cells=_cells(5, _LIST_CLASSES, 4), env={"VP_N": 3, "VP_M": 5}, timeout=200,
                     bound="every Unicode inLibrary value of 1..3 characters x every header library text of <= 5"),
        thorough=R.tier(cells=_cells(7, _LIST_CLASSES, 4, split1_from=6, split2_from=7), env={"VP_N": 4, "VP_M": 7},
                        timeout=900,
                        bound="every inLibrary value of 1..4 characters x every header library text of <= 7"),
        what="no issue iff the value is one of the comma-separated library names of the schema header, otherwise "
             "exactly SCHEMA_ATTRIBUTE_VALUE_INVALID",
        oracle="models/compliance_ref.py in_library_expect", stubs=[_STUB_ENTRY], outside="longer names"),
    R.H("placeholder_rule", [_AV + "tag_is_placeholder_check"],
        quick=R.tier(cells=_cells(4, ["/", "#"], 4), env={"VP_N": 4}, timeout=200,
                     bound="every Unicode node name of <= 4 characters; parent present or not; 0..2 siblings; "
                           "0..2 children"),
        thorough=R.tier(cells=_cells(6, ["/", "#"], 4, split1_from=6), env={"VP_N": 6}, timeout=900,
                        bound="every node name of <= 6 characters; parent present or not; 0..2 siblings; 0..2 children"),
        what="a node whose name does not end in '/#' carrying a class attribute gives SCHEMA_ATTRIBUTE_VALUE_INVALID; "
             "siblings / children of a placeholder give SCHEMA_ATTRIBUTE_INVALID each; nothing else is reported",
        oracle="models/compliance_ref.py placeholder_expect", stubs=[_STUB_ENTRY], outside="a bare '#' root node"),
    R.H("deprecated_from_rule", [_AV + "tag_is_deprecated_check",
                                 "hed.schema.schema_validation_util.schema_version_for_library"],
        quick=R.tier(cells=R.product_cells([{"VP_CFG": 0}, {"VP_CFG": 2}],
                                           [{"VP_WHICH": 0, "VP_HZ": 0}, {"VP_WHICH": 0, "VP_HZ": 1}, {"VP_WHICH": 2}]),
                     env={"VP_N": 5, "VP_M": 1, "VP_REL": 1}, timeout=400, path_timeout=40,
                     bound="deprecatedFrom = every Unicode text of 1..5 characters; one released version, the "
                           "schema version and the partner version each d.d.d (major 1-9, minor and patch 0-9); "
                           "standard schema / partnered library schema; element with or without inLibrary"),
        thorough=R.tier(cells=_dep_thorough_cells(), env={"VP_N": 6, "VP_M": 2}, timeout=1100, path_timeout=60,
                        bound="as quick with two released versions and a stand-alone library schema as third "
                              "configuration; for the standard schema additionally minor numbers of 1..2 digits "
                              "(d.dd.d) in the first released version and in the schema version; deprecatedFrom <= 6 "
                              "characters"),
        what="SCHEMA_DEPRECATION_ERROR iff the value is not a released version of the element's own library or is "
             "not older than that library's version in the schema (partner version for standard elements of a "
             "partnered schema); nothing else",
        oracle="models/compliance_ref.py deprecated_from_expect (own numeric version comparison)",
        stubs=[_STUB_ENTRY, _STUB_VERSIONS],
        outside="pre-release / build suffixes in versions; more than two released versions; merged multi-library "
                "headers; the real cache directory listing"),
    R.H("deprecated_children_rule", [_AV + "tag_is_deprecated_check"],
        quick=R.tier(env={}, timeout=170,
                     bound="deprecatedFrom d.0.0 (any digit d) released or not, schema 5.0.0; tag entry with 0..2 "
                           "children of which 0..all are deprecated, or an entry kind without children"),
        what="one SCHEMA_DEPRECATION_ERROR per child of a deprecated tag that is not itself deprecated, in addition "
             "to the verdict on the value; entries without a `children` member are handled",
        oracle="models/compliance_ref.py deprecated_from_expect", stubs=[_STUB_ENTRY, _STUB_VERSIONS],
        outside="more than two children"),
    R.H("item_exists_rule", [_AV + "item_exists_check", "hed.schema.hed_schema_section.HedSchemaTagSection.get",
                             "hed.schema.hed_schema_section.HedSchemaSection.get"],
        quick=R.tier(cells=_cells(4, _ITEM_CLASSES, 3, split1_from=4, extra=[{"VP_KIND": 0, "VP_N": 4}])
                     + _cells(3, _ITEM_CLASSES, 3, extra=[{"VP_KIND": 1, "VP_N": 3}, {"VP_KIND": 2, "VP_N": 3}]),
                     env={}, timeout=200,
                     bound="every printable-ASCII list value of <= 4 characters against a tag section {A, A/B, "
                           "A/D(deprecated)}, of <= 3 characters against unit-/value-class sections {u, v, "
                           "d(deprecated)}; holder "
                           "deprecated or not"),
        thorough=R.tier(cells=_cells(5, _ITEM_CLASSES, 3, split1_from=4, split2_from=5,
                                     extra=R.int_cells("VP_KIND", 0, 2)),
                        env={"VP_N": 5}, timeout=900, bound="values of <= 5 characters against all three sections"),
        what="one SCHEMA_ATTRIBUTE_VALUE_INVALID per non-empty item that names nothing in the section; one "
             "SCHEMA_DEPRECATION_ERROR per item naming a deprecated element unless the holder is deprecated itself; "
             "existing items give nothing",
        oracle="models/compliance_ref.py item_list_expect (spellings differing only in letter case undecided)",
        stubs=[_STUB_ENTRY, "sections are real HedSchemaTagSection/HedSchemaSection objects filled through their own "
                            "_create_tag_entry/_add_to_dict with three short-named entries each",
               "vp/chx.py ASCII casefold"],
        outside="the 1200-tag tables of the bundled schemas; non-ASCII item names"),
    R.H("default_units_rule", ["hed.schema.schema_attribute_validators.unit_exists",
                               "hed.schema.hed_schema_entry.UnitClassEntry.get_derivative_unit_entry"],
        quick=R.tier(cells=_cells(3, ["s", "m", "$", "d"], 1, split1_from=2, extra=R.int_cells("VP_K", 0, 1)),
                     env={"VP_N": 3}, timeout=300,
                     bound="defaultUnits value: every printable-ASCII text of <= 3 characters, on the unit classes "
                           "timeUnits and currencyUnits of the mini schema (real 8.3.0 unit classes, 4 modifiers)"),
        thorough=R.tier(cells=_cells(5, ["s", "m", "$", "d"], 1, split1_from=2, split2_from=4,
                                     extra=R.int_cells("VP_K", 0, 1)), env={"VP_N": 5}, timeout=1500,
                        bound="same with <= 5 characters"),
        what="defaultUnits naming a unit of the class itself gives no issue; naming anything else - no unit at all, or "
             "a unit that only belongs to ANOTHER class - gives SCHEMA_ATTRIBUTE_VALUE_INVALID",
        oracle="models/units_ref.py Table.match over the MediaWiki text of the schema",
        stubs=["real UnitClassEntry (shallow copy with its own attribute dict) of vp/mini_units.MINI_U"],
        outside="the bundled schemas' full modifier tables; deprecation of the default unit"),
    R.H("hed_id_rule", ["hed.schema.schema_attribute_validator_hed_id.HedIDValidator.verify_tag_id",
                        "hed.schema.schema_io.df_util.remove_prefix"],
        quick=R.tier(cells=_cells(2, ["0", "1", "-", " "], 1, split1_from=2, extra=R.int_cells("VP_PREV", 0, 1)),
                     env={"VP_N": 2, "VP_M": 1}, timeout=300,
                     bound="hedId = 'HED_' + every printable-ASCII text of <= 2 characters; previous version absent / "
                           "element new / element without id / element with id HED_d (any digit); id range absent or "
                           "any 0 <= lo <= hi <= 1000; element of the standard schema or of library 'lib'"),
        thorough=R.tier(cells=_cells(3, ["0", "1", "-", " "], 1, split1_from=2, split2_from=3,
                                     extra=R.int_cells("VP_PREV", 0, 1)),
                        env={"VP_N": 3, "VP_M": 1}, timeout=1100, path_timeout=60,
                        bound="as quick with <= 3 characters after 'HED_', ranges up to 10000"),
        what="'HED_'+digits: SCHEMA_ATTRIBUTE_VALUE_INVALID once if the id differs from the id the element had in the "
             "previous version of its own library, once if it lies outside that library's id range, nothing "
             "otherwise; text that is no integer: SCHEMA_ATTRIBUTE_VALUE_INVALID; the other library's previous "
             "schema / range (decoys) never influence the verdict",
        oracle="models/compliance_ref.py hed_id_expect (sign / blank / underscore spellings undecided)",
        stubs=[_STUB_ENTRY, "HedIDValidator made with __new__; _previous_schemas maps a library to an object whose "
                            "get_tag_entry returns the given old entry; library_data given", _CHNUM_I],
        outside="loading the previous schema version (HedIDValidator.__init__); seven-digit ids"),
    R.H("term_characters_rule", ["hed.schema.schema_validation_util.validate_schema_term_new",
                                 "hed.schema.schema_validation_util.get_allowed_characters_by_name",
                                 "hed.schema.schema_validation_util.get_problem_indexes"],
        quick=R.tier(cells=_cells(4, _CHAR_CLASSES, 3, minlen=1, extra=R.int_cells("VP_EXTRA", 0, 2)),
                     env={"VP_N": 4}, timeout=200,
                     bound="every Unicode term of 1..4 characters; entry allowedCharacter absent / 'blank' / "
                           "'colon,slash'"),
        thorough=R.tier(cells=_cells(5, _CHAR_CLASSES, 4, split1_from=5, minlen=1,
                                     extra=R.int_cells("VP_EXTRA", 0, 2)),
                        env={"VP_N": 5}, timeout=900, bound="as quick with terms of 1..5 characters"),
        what="one SCHEMA_CHARACTER_INVALID per character outside letters, digits, '-', '.', '_', the entry's own "
             "allowedCharacter groups and non-ASCII; nothing else",
        oracle="models/compliance_ref.py term_problem_positions (code points > 127 other than U+00A1..U+017F undecided)",
        stubs=[_STUB_ENTRY, _CHSET], outside="symbolic allowedCharacter on the checked entry (it is hashed)"),
    R.H("description_characters_rule", ["hed.schema.schema_validation_util.validate_schema_description_new",
                                        "hed.schema.schema_validation_util.get_problem_indexes"],
        quick=R.tier(cells=_cells(4, _CHAR_CLASSES, 3), env={"VP_N": 4}, timeout=200,
                     bound="every Unicode description of <= 4 characters"),
        thorough=R.tier(cells=_cells(5, _CHAR_CLASSES, 4, split1_from=5), env={"VP_N": 5}, timeout=900,
                        bound="every Unicode description of <= 5 characters"),
        what="one SCHEMA_CHARACTER_INVALID per ASCII character that is not printable or is one of [ ] { }; commas and "
             "non-ASCII text are accepted",
        oracle="models/compliance_ref.py description_problem_positions", stubs=[_STUB_ENTRY, _CHSET],
        outside="longer descriptions"),
    R.H("problem_indexes_rule", ["hed.schema.schema_validation_util.get_problem_indexes"],
        quick=R.tier(cells=_cells(3, _CHAR_CLASSES, 2), env={"VP_N": 3, "VP_M": 2}, timeout=200,
                     bound="every Unicode text of <= 3 characters x every character set of <= 2 symbolic characters "
                           "(+ optional 'nonascii') x index adjustment -3..3"),
        thorough=R.tier(cells=_cells(4, _CHAR_CLASSES, 3, split1_from=4), env={"VP_N": 4, "VP_M": 2},
                        timeout=900, bound="text <= 4, character set <= 2"),
        what="returns exactly the (character, index + adjustment) pairs, in order, of characters not in the set "
             "(code points > 127 exempt when the set contains 'nonascii'); an empty set restricts nothing",
        oracle="inline list comprehension from the docstring", stubs=[_CHSET], outside="longer texts"),
]
