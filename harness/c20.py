"""C20 — temporal context of every event equals the set of processes ongoing at that time.

Kernels (DESIGN.md §3/C20), all on the real EventManager / TemporalEvent code with stub rows and stub tags:

  context_cover        EventManager._extract_context + compress_strings on <= 3 processes with arbitrary symbolic
                       (start, end) indices: a process is in contexts[i] iff start < i < end, it is listed in
                       base[start] exactly once, entries are in time order.
  duration_end_index   EventManager._extract_duration_events (+ real TemporalEvent.__init__/_split_group/set_end)
                       on a symbolic non-decreasing onset list: end index == first time point whose onset is
                       >= start time + duration (len(onsets) if none).
  onset_offset_scan    EventManager._extract_temporal_events driven over a history of <= 3 Onset/Offset markers of
                       two symbolic names on <= 3 time points: Onset while open / Offset close the open process at
                       the new time point, exactly the still-open processes remain in the running dict.
  history_context      the real EventManager._create_event_list (pandas/df_util/HedString module globals swapped
                       for pass-through stubs) on a whole history: rows with one Onset/Offset marker each, one
                       Duration group, symbolic non-decreasing onsets; base / contexts / event_list / remaining
                       annotation against the reference "processes ongoing at that time", still-open processes
                       ending at len(onsets), rows that share an onset acting as one time point.

Numbers: onsets and durations are symbolic INTEGERS (z3 ints); see `_num` below for why not floats.

Known finding C20-same-onset-row (history_context): a process that starts on a row which is followed by a row with
the same onset is reported in that later row's context although it did not start strictly earlier than that row's
time point.  Witness: history_context(2, 0, 0, 0, 0, 0, 0, 0, 0, 0, 1, False); public API: onsets 1.0, 1.0, 2.0 with
HED "(Duration/5 s, (Red))", "Blue", "Green" -> contexts == ['', '((Red))', '((Red))'] (the property requires '' for
row 1, which is the same time point as row 0).
"""
from vp import reg as R
from vp import chx, chx_hash
from models import context_ref as ref
from models.onset_ref import is_folded, same_name
from hed.models.hed_group import HedGroup
from hed.tools.analysis import event_manager as em_mod
from hed.tools.analysis.event_manager import EventManager
from hed.tools.analysis import temporal_event as te_mod
from hed.tools.analysis.temporal_event import TemporalEvent

chx.install()
chx_hash.install()


def _num(x):
    """float() as seen by temporal_event.py: the identity on (symbolic) ints.  CrossHair's float is either an
    incomplete real model (paths through it never count as exhausted) or z3 floating point (~2 s per path,
    measured); onsets and durations here are symbolic INTEGERS, for which float(x) == x exactly below 2**53
    and the code under check only adds and compares them."""
    if isinstance(x, int) and not isinstance(x, bool):
        return x
    return float(x)


te_mod.float = _num


def _conc(v, lo, hi):
    """the concrete int equal to v (one fork per candidate): keeps list indexing / range() from re-realising a
    symbolic int at every use"""
    for c in range(lo, hi + 1):
        if v == c:
            return c
    raise AssertionError("out of range")


# ------------------------------------------------------------------------------------------------ stubs
class _Tag:
    """stub tag: exactly the attributes EventManager / TemporalEvent read"""

    def __init__(self, short_base_tag, extension="", short_tag="", value=None):
        self.short_base_tag = short_base_tag
        self.extension = extension
        self.short_tag = short_tag
        self._value = value
        self._parent = None

    def value_as_default_unit(self):
        return self._value

    def __str__(self):
        return self.short_tag or self.short_base_tag

    def __eq__(self, other):
        """HedTag's contract for `tag == "Offset"`: case-insensitive comparison of the printed tag"""
        if isinstance(other, str):
            return str(self).casefold() == other.casefold()
        return self is other

    def __hash__(self):
        return id(self)


class _TGroup:
    """stub temporal group (top-level group holding an Onset/Offset/Duration tag)"""

    def __init__(self, label, children):
        self.label = label
        self.children = list(children)

    def find_def_tags(self, recursive=False, include_groups=3):
        return [c for c in self.children if isinstance(c, _Tag) and c.short_base_tag == "Def"]

    def remove(self, items):
        for it in items:
            self.children = [c for c in self.children if c is not it]

    def __bool__(self):
        return True

    def __str__(self):
        return self.label


class _Row:
    """stub assembled HED string of one row: find_top_level_tags -> its (anchor tag, group) pairs; remove()
    records what was taken out"""

    def __init__(self, pairs, plain):
        self.pairs = list(pairs)
        self.plain = plain
        self.removed = []

    def find_top_level_tags(self, anchor_tags, include_groups=2):
        return [(t, g) for t, g in self.pairs if t.short_base_tag in anchor_tags]

    def remove(self, items):
        for it in items:
            self.removed.append(it)
            self.pairs = [p for p in self.pairs if p[1] is not it]

    def __bool__(self):
        if self.pairs:
            return True
        return True if self.plain else False


def _marker_pair(kind, name, label):
    """(Def/<name>, Onset|Offset) as stubs.  The Def tag's short_tag is the process label."""
    anchor = _Tag("Onset" if kind == ref.ONSET else "Offset")
    d = _Tag("Def", extension=name, short_tag=label)
    return anchor, _TGroup(label, [d, anchor])


def _duration_pair(duration, label):
    """(Duration/<duration>, (x)) as stubs; the inner group is a real HedGroup so that TemporalEvent keeps the
    whole group as the process content"""
    anchor = _Tag("Duration", value=duration)
    inner = HedGroup(contents=[_Tag("x")])
    return anchor, _TGroup(label, [anchor, inner])


def _new_manager(onsets, n):
    em = EventManager.__new__(EventManager)
    em.hed_schema = None
    em.onsets = onsets
    em.event_list = [[] for _ in range(n)]
    return em


def _labels(text):
    return text.split(",") if text else []


def _in_time_order(got, want_procs):
    """got: labels; want_procs: (label, start, end) of exactly the processes expected.  True iff got is a
    permutation of the expected labels (labels are unique constants) whose start points do not decrease."""
    want = [p[0] for p in want_procs]
    if sorted(got) != sorted(want):
        return False
    prev = None
    for g in got:
        for label, start, end in want_procs:
            if label == g:
                if prev is not None and start < prev:
                    return False
                prev = start
    return True


def _cell(name, v):
    k = R.env_int(name)
    return k is None or v == k


# ------------------------------------------------------------------------------------------------ A
class _Ev:
    def __init__(self, label, s, e):
        self.contents = label
        self.start_index = s
        self.end_index = e


def context_cover(n: int, k: int, s1: int, e1: int, s2: int, e2: int, s3: int, e3: int) -> bool:
    """
    pre: 1 <= n <= R.N(4) and _cell("VP_ROWS", n)
    pre: 0 <= k <= R.M(2) and _cell("VP_K", k)
    pre: 0 <= s1 < n and 0 <= e1 <= n and _cell("VP_S1", s1)
    pre: 0 <= s2 < n and 0 <= e2 <= n
    pre: 0 <= s3 < n and 0 <= e3 <= n
    post: _
    """
    n, k = _conc(n, 1, 6), _conc(k, 0, 3)
    procs = [("X", _conc(s1, 0, n - 1), e1), ("Y", _conc(s2, 0, n - 1), e2), ("Z", _conc(s3, 0, n - 1), e3)][:k]
    em = _new_manager(None, n)
    em.hed_strings = [None] * n
    for label, s, e in procs:
        em.event_list[s].append(_Ev(label, s, e))
    em._extract_context()
    if len(em.base) != n or len(em.contexts) != n:
        return False
    for i in range(n):
        want_ctx = [p for p in procs if p[0] in ref.context_at(procs, i)]
        if not _in_time_order(_labels(em.contexts[i]), want_ctx):
            return False
        want_base = [p for p in procs if p[0] in ref.listed_at(procs, i)]
        if not _in_time_order(_labels(em.base[i]), want_base):
            return False
    return True


# ------------------------------------------------------------------------------------------------ B
def _duration_kernel(onsets, k, m, d1, d2):
    n = len(onsets)
    em = _new_manager(onsets, n)
    specs = [(d1, "D1"), (d2, "D2")][:m]
    pairs = [_duration_pair(d, label) for d, label in specs]
    groups = [g for _, g in pairs]
    row = _Row(pairs, True)
    em._extract_duration_events(row, k)
    for i in range(n):
        if i != k and em.event_list[i] != []:
            return False
    evs = em.event_list[k]
    if len(evs) != m:
        return False
    for j in range(m):
        ev, (d, label) = evs[j], specs[j]
        if not isinstance(ev, TemporalEvent) or ev.contents is not groups[j]:
            return False
        if ev.start_index != k or ev.start_time != onsets[k]:
            return False
        if ev.end_time != onsets[k] + d:
            return False
        if ev.end_index != ref.first_at_or_after(onsets, onsets[k] + d):
            return False
    if len(row.removed) != m:
        return False
    for j in range(m):
        if row.removed[j] is not groups[j]:
            return False
    return row.pairs == []


def duration_end_index(n: int, o0: int, g1: int, g2: int, g3: int, g4: int, k: int, m: int, d1: int,
                       d2: int) -> bool:
    """
    pre: 1 <= n <= R.N(4) and _cell("VP_ROWS", n)
    pre: 0 <= o0 and 0 <= g1 and 0 <= g2 and 0 <= g3 and 0 <= g4
    pre: 0 <= k < n and _cell("VP_EV", k)
    pre: 1 <= m <= 2 and _cell("VP_K", m)
    pre: 0 <= d1 and 0 <= d2
    post: _
    """
    n, k, m = _conc(n, 1, 5), _conc(k, 0, 4), _conc(m, 1, 2)
    onsets = [o0, o0 + g1, o0 + g1 + g2, o0 + g1 + g2 + g3, o0 + g1 + g2 + g3 + g4][:n]
    return _duration_kernel(onsets, k, m, d1, d2)


def duration_with_delay(n: int, o0: int, g1: int, g2: int, k: int, d: int, dl: int, first: bool) -> bool:
    """
    pre: 1 <= n <= 3 and _cell("VP_ROWS", n)
    pre: 0 <= o0 and 0 <= g1 and 0 <= g2
    pre: 0 <= k < n
    pre: 0 <= d and 0 <= dl
    post: _
    """
    # a Delay-shifted Duration group arrives on its own row AT ITS SHIFTED TIME and still carries its Delay tag
    # (before or after the Duration tag): the process starts at that row's onset and lasts `d`, the Delay tag must
    # not be counted a second time
    n, k = _conc(n, 1, 3), _conc(k, 0, 2)
    onsets = [o0, o0 + g1, o0 + g1 + g2][:n]
    em = _new_manager(onsets, n)
    dur = _Tag("Duration", value=d)
    delay = _Tag("Delay", value=dl)
    inner = HedGroup(contents=[_Tag("x")])
    group = _TGroup("D1", [delay, dur, inner] if first else [dur, delay, inner])
    row = _Row([(dur, group)], True)
    em._extract_duration_events(row, k)
    evs = em.event_list[k]
    if len(evs) != 1:
        return False
    ev = evs[0]
    if ev.start_index != k or ev.start_time != onsets[k] or ev.end_time != onsets[k] + d:
        return False
    return ev.end_index == ref.first_at_or_after(onsets, onsets[k] + d)


# ------------------------------------------------------------------------------------------------ C
def _names_ok(*names):
    for s in names:
        if len(s) != 1 or not R.ascii_printable(s):
            return False
    return True


def _valued(names):
    """VP_VALUED cells: the two names are a definition name plus a value ("d/<x>", "D/<y>") - the same definition
    in another letter case with possibly different values; they are the same process iff the WHOLE names agree"""
    if R.env_int("VP_VALUED"):
        return ("d/" + names[0], "D/" + names[1])
    return names


def _history(n, names, markers):
    """markers: (kind, which, t, label) -> list per time point of (kind, name, label)"""
    names = _valued(names)
    hist = []
    for t in range(n):
        here = []
        for kind, which, at, label in markers:
            if at == t:
                here.append((kind, names[1] if which else names[0], label))
        hist.append(here)
    return hist


def _scan_valid(n, na, nb, L, k1, w1, t1, k2, w2, t2, k3, w3, t3):
    markers = [(k1, w1, t1, "P1"), (k2, w2, t2, "P2"), (k3, w3, t3, "P3")][:L]
    return ref.scan(_history(n, (na, nb), markers))[0]


def onset_offset_scan(n: int, na: str, nb: str, L: int, k1: int, w1: bool, t1: int, k2: int, w2: bool, t2: int,
                      k3: int, w3: bool, t3: int, o0: int, o1: int, o2: int, o3: int, plain: bool) -> bool:
    """
    pre: 1 <= n <= R.N(3) and _cell("VP_ROWS", n)
    pre: 0 <= L <= R.M(3) and _cell("VP_K", L)
    pre: _names_ok(na, nb)
    pre: 1 <= k1 <= 2 and 1 <= k2 <= 2 and 1 <= k3 <= 2
    pre: _cell("VP_K1", k1) and _cell("VP_K2", k2) and _cell("VP_K3", k3)
    pre: 0 <= t1 <= t2 <= t3 < n
    pre: _scan_valid(n, na, nb, L, k1, w1, t1, k2, w2, t2, k3, w3, t3)
    post: _
    """
    n, L = _conc(n, 1, 4), _conc(L, 0, 3)
    onsets = [o0, o1, o2, o3][:n]
    markers = [(k1, w1, t1, "P1"), (k2, w2, t2, "P2"), (k3, w3, t3, "P3")][:L]
    hist = _history(n, (na, nb), markers)
    rows = [_Row([_marker_pair(kind, name, label) for kind, name, label in here], plain) for here in hist]
    groups = [[g for _, g in r.pairs] for r in rows]
    em = _new_manager(onsets, n)
    onset_dict = dict()     # scan-based map under CrossHair (a `{}` literal would hash the symbolic names)
    for t in range(n):
        em._extract_temporal_events(rows[t], t, onset_dict)
    valid, procs = ref.scan(hist)
    # every process is recorded at its start point with the reference's end
    for t in range(n):
        want = [p for p in procs if p[2] == t]
        evs = em.event_list[t]
        if len(evs) != len(want):
            return False
        for j in range(len(want)):
            label, name, start, end = want[j]
            ev = evs[j]
            if ev.contents != label or ev.start_index != t or ev.start_time != onsets[t]:
                return False
            if end is None:
                if ev.end_index is not None or ev.end_time is not None:
                    return False
            elif ev.end_index != end or ev.end_time != onsets[end]:
                return False
        # the temporal groups, and only they, were taken out of the row
        if len(rows[t].removed) != len(groups[t]) or rows[t].pairs != []:
            return False
        for j in range(len(groups[t])):
            if rows[t].removed[j] is not groups[t][j]:
                return False
    # exactly the still-open processes are left in the running dict, under their case-folded names
    still = ref.open_names(procs)
    items = list(onset_dict.items())
    if len(items) != len(still):
        return False
    for name, label in still:
        hit = 0
        for key, ev in items:
            if same_name(key, name):
                if not is_folded(key) or ev.contents != label:
                    return False
                hit += 1
        if hit != 1:
            return False
    return True


# ------------------------------------------------------------------------------------------------ D
class _Frame:
    def __init__(self, hed, onset):
        self.HED = hed
        self.onset = onset


class _DfUtil:
    """pass-through for the pandas glue: the rows handed in are already Def-shrunk, Delay-split, sorted and
    equal-onset-merged (precondition `ref.merged`)"""

    @staticmethod
    def shrink_defs(series, schema):
        return series

    @staticmethod
    def split_delay_tags(series, schema, onsets):
        return _Frame(series, onsets)


class _Pd:
    @staticmethod
    def to_numeric(x, errors="raise"):
        return x


class _Input:
    def __init__(self, rows, onsets):
        self.series_a = rows
        self.onsets = onsets


def _row_specs(n, codes, dr):
    """codes[i] in 0..4: nothing / Onset a / Offset a / Onset b / Offset b;  -> history, emptiness"""
    hist, empty = [], []
    for i in range(n):
        c = codes[i]
        here = []
        if c == 1 or c == 2:
            here.append((c, "a", "P%d" % i))
        elif c == 3 or c == 4:
            here.append((c - 2, "B", "P%d" % i))     # written upper-case: names are case-insensitive
        hist.append(here)
        empty.append(c == 0 and dr != i)
    return hist, empty


def _kf_same_onset_row(n, onsets, procs):
    """a process starts on a row that is followed by a row with the same onset, and is still running there"""
    for label, start, end in procs:
        if start + 1 < n and onsets[start + 1] == onsets[start] and end > start + 1:
            return True
    return False


def _history_pre(n, o0, g1, g2, g3, c0, c1, c2, c3, dr, d):
    onsets = [o0, o0 + g1, o0 + g1 + g2, o0 + g1 + g2 + g3][:n]
    hist, empty = _row_specs(n, [c0, c1, c2, c3], dr)
    if not ref.merged(onsets, empty):
        return False
    return ref.scan(hist)[0]


def _history_procs(n, onsets, hist, dr, d):
    valid, procs = ref.scan(hist)
    procs = ref.close_at_end(procs, n)
    if dr >= 0:
        procs.append(("D", dr, ref.first_at_or_after(onsets, onsets[dr] + d)))
    return procs


def _history_known(n, o0, g1, g2, g3, c0, c1, c2, c3, dr, d):
    onsets = [o0, o0 + g1, o0 + g1 + g2, o0 + g1 + g2 + g3][:n]
    hist, empty = _row_specs(n, [c0, c1, c2, c3], dr)
    return _kf_same_onset_row(n, onsets, _history_procs(n, onsets, hist, dr, d))


def history_context(n: int, o0: int, g1: int, g2: int, g3: int, c0: int, c1: int, c2: int, c3: int, dr: int,
                    d: int, plain: bool) -> bool:
    """
    pre: 1 <= n <= R.N(3) and _cell("VP_ROWS", n)
    pre: 0 <= o0 and 0 <= g1 and 0 <= g2 and 0 <= g3
    pre: 0 <= c0 <= 4 and 0 <= c1 <= 4 and 0 <= c2 <= 4 and 0 <= c3 <= 4
    pre: _cell("VP_C0", c0) and _cell("VP_C1", c1) and _cell("VP_C2", c2)
    pre: -1 <= dr < n and 0 <= d
    pre: _history_pre(n, o0, g1, g2, g3, c0, c1, c2, c3, dr, d)
    pre: not R.known("C20-same-onset-row", _history_known(n, o0, g1, g2, g3, c0, c1, c2, c3, dr, d))
    post: _
    """
    n, dr = _conc(n, 1, 4), _conc(dr, -1, 3)
    onsets = [o0, o0 + g1, o0 + g1 + g2, o0 + g1 + g2 + g3][:n]
    hist, empty = _row_specs(n, [c0, c1, c2, c3], dr)
    rows = []
    for i in range(n):
        pairs = [_marker_pair(kind, name, label) for kind, name, label in hist[i]]
        if dr == i:
            pairs.append(_duration_pair(d, "D"))
        rows.append(_Row(pairs, plain and not empty[i]))
    groups = [[g for _, g in r.pairs] for r in rows]
    em = _new_manager(None, 0)
    saved = (em_mod.df_util, em_mod.pd, em_mod.HedString)
    em_mod.df_util, em_mod.pd, em_mod.HedString = _DfUtil, _Pd, (lambda s, schema: s)
    try:
        em._create_event_list(_Input(rows, onsets))
    finally:
        em_mod.df_util, em_mod.pd, em_mod.HedString = saved
    procs = _history_procs(n, onsets, hist, dr, d)
    if len(em.base) != n or len(em.contexts) != n or len(em.hed_strings) != n or len(em.event_list) != n:
        return False
    for i in range(n):
        # each started process is listed at its start point, once
        want_base = [p for p in procs if p[1] == i]
        if not _in_time_order(_labels(em.base[i]), want_base):
            return False
        evs = em.event_list[i]
        if len(evs) != len(want_base):
            return False
        for ev in evs:
            ok = False
            for label, start, end in want_base:
                if str(ev.contents) == label and ev.start_index == start and ev.end_index == end:
                    ok = True
            if not ok:
                return False
        # context = processes started at a strictly earlier time point and not ended
        want_ctx = [p for p in procs if p[0] in ref.row_context(onsets, procs, i)]
        if not _in_time_order(_labels(em.contexts[i]), want_ctx):
            return False
        # the remaining annotation of the point is kept, without the temporal groups
        row = em.hed_strings[i]
        if row is not rows[i] or row.pairs != [] or row.plain != (plain and not empty[i]):
            return False
        if len(row.removed) != len(groups[i]):
            return False
        for g in groups[i]:
            hit = 0
            for r in row.removed:
                if r is g:
                    hit += 1
            if hit != 1:
                return False
    return True


# ------------------------------------------------------------------------------------------------ registry
def _cover_cells(nmax, kmax, split_from):
    """(rows, number of processes); cells with k >= split_from are split by the first process's start"""
    cells = []
    for n in range(1, nmax + 1):
        for k in range(0, kmax + 1):
            if k >= split_from and n >= 3:
                for s1 in range(n):
                    cells.append({"VP_ROWS": n, "VP_K": k, "VP_S1": s1})
            else:
                cells.append({"VP_ROWS": n, "VP_K": k})
    return cells


def _scan_cells(nmax, split3):
    plain = _scan_cells_plain(nmax, split3)
    valued = [dict(c, VP_VALUED=1) for c in plain if c["VP_K"] >= 2]
    return plain + valued


def _scan_cells_plain(nmax, split3):
    """(rows, number of markers); 3-marker cells are split by the kinds of the first 2 (or all 3) markers"""
    cells = []
    for n in range(1, nmax + 1):
        for L in range(0, 3):
            cells.append({"VP_ROWS": n, "VP_K": L})
        if n < 2:
            continue                # 3 markers of 2 names on one time point: a name would be used twice
        for k1 in (1,):             # an Offset as the very first marker is never a valid history
            for k2 in (1, 2):
                if split3 and n >= 4:
                    for k3 in (1, 2):
                        if k2 == 2 and k3 == 2:
                            continue    # Onset, Offset, Offset: the second Offset has nothing open
                        cells.append({"VP_ROWS": n, "VP_K": 3, "VP_K1": k1, "VP_K2": k2, "VP_K3": k3})
                else:
                    cells.append({"VP_ROWS": n, "VP_K": 3, "VP_K1": k1, "VP_K2": k2})
    return cells


def _code_prefixes(depth):
    """row-code prefixes (0 nothing / 1 Onset a / 2 Offset a / 3 Onset b / 4 Offset b) that some valid history
    starts with: an Offset needs its process open.  Every other prefix has no valid history at all, so the
    cells built from these prefixes cover the whole (valid) input space."""
    out = [[]]
    for _ in range(depth):
        nxt = []
        for pre in out:
            for c in range(5):
                hist, _e = _row_specs(len(pre) + 1, pre + [c], -1)
                if ref.scan(hist)[0]:
                    nxt.append(pre + [c])
        out = nxt
    return out


def _history_cells(nmax, depth):
    cells = []
    for n in range(1, nmax + 1):
        for pre in _code_prefixes(min(n, depth)):
            cell = {"VP_ROWS": n}
            for i, c in enumerate(pre):
                cell["VP_C%d" % i] = c
            cells.append(cell)
    return cells


_EM = "hed.tools.analysis.event_manager.EventManager."
_TE = "hed.tools.analysis.temporal_event.TemporalEvent."
_S_NUM = ("onsets and durations are symbolic INTEGERS (unbounded z3 ints >= 0); temporal_event.float is shadowed by "
          "the identity on ints (float(i) == i exactly below 2**53; the code only adds and compares these numbers, "
          "so every rational configuration is an integer one up to scaling); CrossHair's own float models were "
          "measured unusable here (real model never counts as exhaustive, IEEE model ~2 s per path)")
_S_TAGS = ("stub tags (short_base_tag, extension, short_tag, value_as_default_unit, == str) and stub temporal groups "
           "(children, find_def_tags, remove, str = process label); stub row object (find_top_level_tags, remove, "
           "truthiness); self.onsets is a Python list instead of a pandas Series")

HARNESSES = [
    R.H("context_cover", [_EM + "_extract_context", _EM + "compress_strings"],
        quick=R.tier(cells=_cover_cells(4, 3, 3), env={"VP_N": 4, "VP_M": 3}, timeout=400,
                     bound="1..4 time points, 0..3 processes with any start in [0,n) and any end in [0,n] "
                           "(ends before the start included)"),
        thorough=R.tier(cells=_cover_cells(5, 3, 2), env={"VP_N": 5, "VP_M": 3}, timeout=1500, path_timeout=60,
                        bound="1..5 time points, 0..3 processes with any start in [0,n) and any end in [0,n]"),
        what="a process is in contexts[i] iff start < i < end; it is listed in base[start] exactly once and nowhere "
             "else; entries of one string are in time order; base and contexts have one entry per time point",
        oracle="models/context_ref.py context_at()/listed_at()",
        stubs=["stub events carrying (contents label, start_index, end_index); EventManager made with __new__; "
               "start indices and counts are enumerated by the solver (they index lists), end indices stay symbolic"],
        outside="more processes / time points than the bound; content text of a process (TemporalEvent._split_group)"),
    R.H("duration_end_index", [_EM + "_extract_duration_events", _TE + "__init__", _TE + "_split_group",
                               _TE + "set_end"],
        quick=R.tier(cells=R.product_cells(R.int_cells("VP_ROWS", 1, 4), R.int_cells("VP_K", 1, 2)),
                     env={"VP_N": 4}, timeout=300,
                     bound="1..4 time points with any non-decreasing integer onsets >= 0 (equal onsets included), "
                           "1..2 Duration groups with any integer duration >= 0 at any time point"),
        thorough=R.tier(cells=R.product_cells(R.int_cells("VP_ROWS", 1, 5), R.int_cells("VP_K", 1, 2)),
                        env={"VP_N": 5}, timeout=600,
                        bound="as quick with 1..5 time points"),
        what="each Duration group becomes one process at its own time point with start_time = that onset, end_time = "
             "start + duration, end_index = first time point whose onset >= end_time (len(onsets) if none); the "
             "groups, and only they, are removed from the row; no other time point's list changes",
        oracle="models/context_ref.py first_at_or_after() (linear scan)",
        stubs=[_S_NUM, _S_TAGS, "EventManager made with __new__; the Duration group's inner group is a real HedGroup"],
        outside="duration text -> default units (C11), Delay shifting and sorting (pandas), NaN onsets, "
                "non-integer rounding"),
    R.H("duration_with_delay", [_EM + "_extract_duration_events", _TE + "__init__", _TE + "_split_group", _TE + "set_end"],
        quick=R.tier(cells=R.int_cells("VP_ROWS", 1, 3), timeout=400,
                     bound="1-3 time points with any non-decreasing integer onsets, one Duration group that also holds a "
                           "Delay tag (before or after the Duration tag) with any durations/delays >= 0, on any row"),
        what="a Delay-shifted Duration group (already placed at its shifted time) starts at its row's onset and ends "
             "at the first time point at or after onset + duration: the Delay tag inside it is not applied again",
        oracle="models/context_ref.py first_at_or_after", stubs=[_S_NUM, _S_TAGS],
        outside="the shifting itself (split_delay_tags: pandas)"),
    R.H("onset_offset_scan", [_EM + "_extract_temporal_events", _TE + "__init__", _TE + "_split_group",
                              _TE + "set_end"],
        quick=R.tier(cells=_scan_cells(3, False), env={"VP_N": 3, "VP_M": 3}, timeout=400,
                     bound="valid histories of 0..3 Onset/Offset markers of two names (each exactly 1 printable-ASCII "
                           "char, possibly equal up to case; in the VP_VALUED cells the names are 'd/<x>' and 'D/<y>', "
                           "one definition with two values) placed on 1..3 time points, <= 3 markers per point"),
        thorough=R.tier(cells=_scan_cells(4, True), env={"VP_N": 4, "VP_M": 3}, timeout=1500, path_timeout=60,
                        bound="as quick on 1..4 time points"),
        what="driving the real per-row function over the history: every Onset opens a process at its time point; an "
             "Onset or Offset of an open name (case-insensitive) ends that process at the new time point with that "
             "point's onset as end_time; the temporal groups, and only they, leave the row; afterwards the running "
             "dict holds exactly the still-open processes under case-folded names",
        oracle="models/context_ref.py scan()/open_names() (names compared char-wise, ASCII fold)",
        stubs=[_S_NUM, _S_TAGS, "chx: ASCII-exact z3 model of str.casefold; names printable ASCII; the running dict is "
               "created with dict() (a scan-based map under CrossHair)",
               "validity of the history (every Offset has its process open; a name is used once per time point) is a "
               "precondition: the property quantifies over valid files"],
        outside="names longer than 1 char / non-ASCII; more than 3 markers; Inset; invalid histories (the real code "
                "raises KeyError on an unmatched Offset)"),
    R.H("history_context", [_EM + "_create_event_list", _EM + "_extract_temporal_events",
                            _EM + "_extract_duration_events", _EM + "_extract_context", _EM + "compress_strings",
                            _TE + "__init__", _TE + "set_end"],
        quick=R.tier(cells=_history_cells(3, 2), env={"VP_N": 3}, timeout=400,
                     bound="1..3 rows with any non-decreasing integer onsets (equal onsets included, merged shape), "
                           "per row nothing / Onset a / Offset a / Onset B / Offset B (valid histories), plus at most "
                           "one Duration group with any integer duration >= 0 on any row"),
        thorough=R.tier(cells=_history_cells(4, 3), env={"VP_N": 4}, timeout=1500, path_timeout=60,
                        bound="as quick with 1..4 rows"),
        what="the real _create_event_list loop end to end: base[i] lists exactly the processes starting at row i; "
             "event_list[i] holds them with the reference (start, end) — Onset processes end at the next Onset/Offset "
             "of the name or at len(onsets), Duration processes at the first onset >= start + duration; contexts[i] "
             "== processes whose start point is strictly earlier than row i's time point and that have not ended, "
             "rows sharing an onset being one time point; hed_strings[i] is the row without its temporal groups",
        oracle="models/context_ref.py scan()/close_at_end()/first_at_or_after()/row_context()",
        stubs=[_S_NUM, _S_TAGS,
               "module globals of event_manager swapped for the call: df_util (shrink_defs, split_delay_tags = "
               "pass-through: rows are given already Def-shrunk, Delay-split, sorted, equal-onset-merged), "
               "pd.to_numeric = identity, HedString(x, schema) = x",
               "precondition: only the first row of a run of equal onsets carries annotation (what "
               "filter_series_by_onset produces); history valid"],
        outside="the pandas glue itself (series_a, shrink_defs, split_delay_tags, sorting, needs_sorting rejection), "
                "content text of processes, unfold_context/_filter_hed, HedTagManager; two markers on one row (see "
                "onset_offset_scan); more than one Duration group (see duration_end_index)"),
]
