"""C07 — file-level validation equals row-by-row validation, with true locations (reachable kernels only).

Everything that goes through pandas (SpreadsheetValidator.validate/_run_checks, sorting, Delay splitting, row
shuffling, "never raises for readable input") is outside this family of technique; what is decided here is the
location arithmetic those paths rely on.
"""
from vp import reg as R
from vp import astpatch
from vp.stubs import NOSCHEMA
from hed.models.hed_string import HedString
from hed.models.hed_tag import HedTag
from hed.models import df_util
from hed.errors.error_reporter import ErrorHandler
from hed.errors.error_types import ErrorContext

astpatch.is_to_eq(HedString, "split_into_groups")


def _balanced(s):
    d = 0
    for ch in s:
        if ch == "(":
            d += 1
        elif ch == ")":
            d -= 1
            if d < 0:
                return False
    return d == 0


def _nodes(group):
    out = []
    for c in group.children:
        out.append(c)
        if not isinstance(c, HedTag):
            out += _nodes(c)
    return out


def _maxlen(n):
    return R.N(2) if n == 2 else R.M(1)


def row_spans(c1: str, c2: str, c3: str, n: int) -> bool:
    """
    pre: 2 <= n <= 3
    pre: len(c1) <= _maxlen(n) and len(c2) <= _maxlen(n) and len(c3) <= _maxlen(n)
    pre: n == 3 or c3 == ""
    pre: R.env_int("VP_K") is None or n == R.env_int("VP_K")
    pre: R.env_int("VP_L1") is None or len(c1) == R.env_int("VP_L1")
    pre: R.env_int("VP_L2") is None or len(c2) == R.env_int("VP_L2")
    pre: R.env_int("VP_C0") is None or (len(c1) >= 1 and R.cls_of(c1[0]) == R.env_int("VP_C0"))
    post: _
    """
    # a row assembled from the cells of several columns: every tag/group of the combined annotation is located,
    # in the comma-joined row text, exactly where its own text is
    cells = [c1, c2, c3][:n]
    strings = [HedString(c, NOSCHEMA) for c in cells]
    originals = [_nodes(h) for h in strings]
    row = HedString.from_hed_strings(strings)
    text = ",".join(cells)
    if row.get_original_hed_string() != text:
        return False
    count = 0
    for k in range(n):
        for node in originals[k]:
            a, b = row._get_org_span(node)
            if a is None:
                return False
            count += 1
            if isinstance(node, HedTag):
                if text[a:b] != node.org_tag:
                    return False
            else:
                if text[a:b] != node.get_original_hed_string():
                    return False
                if text[a] != "(" or text[b - 1] != ")":
                    return False
            # and the span lies inside the k-th cell's stretch of the row text
            start = 0
            for j in range(k):
                start += len(cells[j]) + 1
            if not (start <= a and b <= start + len(cells[k])):
                return False
    # a tag that is not part of the row has no location
    stranger = HedTag("x", NOSCHEMA)
    if row._get_org_span(stranger) != (None, None):
        return False
    return count == len(_nodes(row))


def _pin(v, lo, hi):
    """the concrete int equal to v (one fork per candidate value)"""
    for c in range(lo, hi + 1):
        if v == c:
            return c
    raise AssertionError("out of range")


def onset_groups(o1: int, o2: int, o3: int, o4: int, nan_mask: int, n: int) -> bool:
    """
    pre: 1 <= n <= R.N(4)
    pre: 0 <= o1 <= o2 <= o3 <= o4 <= 3
    pre: 0 <= nan_mask < (1 << n)
    pre: (n >= 4 or o4 == o3) and (n >= 3 or o3 == o2) and (n >= 2 or o2 == o1)
    pre: R.env_int("VP_K") is None or n == R.env_int("VP_K")
    post: _
    """
    # rows sharing an onset act as one time point: groups are maximal runs of equal onsets, n/a (NaN) rows skipped
    raw = [_pin(o, 0, 3) for o in [o1, o2, o3, o4][:n]]      # the function hashes the onsets: pick them once
    nan_mask = _pin(nan_mask, 0, 15)
    nan = float("nan")
    onsets = [nan if (nan_mask >> i) & 1 else float(raw[i]) for i in range(n)]
    got = df_util._indexed_dict_from_onsets(onsets)
    groups = [list(v) for v in got.values()]
    # reference
    want = []
    last = None
    for i in range(n):
        if (nan_mask >> i) & 1:
            continue
        if last is not None and raw[i] == last:
            want[-1].append(i)
        else:
            want.append([i])
            last = raw[i]
    return groups == want


def context_stack(row: int, col: str, depth: int) -> bool:
    """
    pre: 0 <= row <= 1000000
    pre: len(col) <= 2
    pre: 0 <= depth <= 2
    post: _
    """
    # issues are stamped with the row/column that is on the context stack when they are produced; balanced
    # push/pop restores the stack
    eh = ErrorHandler(check_for_warnings=True)
    eh.push_error_context(ErrorContext.FILE_NAME, "f")
    before = list(eh.error_context)
    eh.push_error_context(ErrorContext.ROW, row)
    eh.push_error_context(ErrorContext.COLUMN, col)
    for _ in range(depth):
        eh.push_error_context(ErrorContext.SIDECAR_KEY_NAME, "k")
    for _ in range(depth):
        eh.pop_error_context()
    issue = {"code": "X", "message": "m", "severity": 1}
    eh.add_context_and_filter([issue])
    if issue.get(ErrorContext.ROW) != row or issue.get(ErrorContext.COLUMN) != col:
        return False
    if issue.get(ErrorContext.FILE_NAME) != "f" or ErrorContext.SIDECAR_KEY_NAME in issue:
        return False
    eh.pop_error_context()
    eh.pop_error_context()
    return eh.error_context == before


def _rs_cells(k, m1, m2):
    """(number of cells, len(c1), len(c2)); cells with a non-empty first cell are split by the class of c1[0]"""
    out = []
    for l1 in range(0, m1 + 1):
        for l2 in range(0, m2 + 1):
            if l1 == 0:
                out.append({"VP_K": k, "VP_L1": l1, "VP_L2": l2})
            else:
                for c in range(len(R.DELIMS) + 1):
                    out.append({"VP_K": k, "VP_L1": l1, "VP_L2": l2, "VP_C0": c})
    return out


HARNESSES = [
    R.H("row_spans",
        ["hed.models.hed_string.HedString.from_hed_strings", "hed.models.hed_string.HedString._get_org_span",
         "hed.models.hed_string.HedString._get_org_span_from_strings", "hed.models.hed_group.HedGroup.check_if_in_original"],
        quick=R.tier(cells=_rs_cells(2, 2, 2) + _rs_cells(3, 1, 1),
                     env={"VP_N": 2, "VP_M": 1}, timeout=600,
                     bound="2 cells of any Unicode text <= 2 characters each, or 3 cells of <= 1 character each"),
        thorough=R.tier(cells=_rs_cells(2, 3, 2) + _rs_cells(3, 1, 1),
                        env={"VP_N": 3, "VP_M": 2}, timeout=1200, path_timeout=60,
                        bound="2 cells (<= 3 and <= 2 characters), or 3 cells (<= 1, <= 1 and <= 2 characters); the "
                              "planned 3+3 / 2+2+2 did not exhaust in 1500 CPU-s per cell"),
        what="for a row combined from several cells, the reported span of every tag and group selects exactly that "
             "item's text inside its own cell's stretch of the comma-joined row text; foreign tags have no span",
        oracle="inline slice comparison",
        stubs=["NoSchema stub", "split_into_groups recompiled with `is` -> `==` on characters"],
        outside="SpreadsheetValidator row/column loop, pandas glue, row shuffling, totality of file validation"),
    R.H("onset_groups", ["hed.models.df_util._indexed_dict_from_onsets"],
        quick=R.tier(cells=R.int_cells("VP_K", 1, 3), env={"VP_N": 3}, timeout=300,
                     bound="1-3 rows, non-decreasing integer onsets in [0,3], any subset n/a (solver-enumerated: the "
                           "function keys a dict on the onset)"),
        thorough=R.tier(cells=R.int_cells("VP_K", 1, 4), env={"VP_N": 4}, timeout=1500, bound="1-4 rows, as quick"),
        what="time points are the maximal runs of equal onsets in file order; n/a rows belong to none",
        oracle="inline run grouping", stubs=[],
        outside="fractional onsets / the 1e-9 tolerance (floats are hashed, which realises them); pandas to_numeric"),
    R.H("context_stack",
        ["hed.errors.error_reporter.ErrorHandler.push_error_context", "hed.errors.error_reporter.ErrorHandler.pop_error_context",
         "hed.errors.error_reporter.ErrorHandler.add_context_and_filter",
         "hed.errors.error_reporter.ErrorHandler._add_context_to_errors"],
        quick=R.tier(timeout=120, bound="any row label in [0,10^6], any column name of <= 2 chars, 0-2 nested pushes"),
        what="an issue is stamped with the row and column on the stack when it is decorated; balanced push/pop "
             "restores the stack", oracle="inline", stubs=[], outside="which row label the file validators push"),
]
