"""C13 — library schemas and namespaces compose without changing meaning (reachable kernels)."""
from vp import reg as R
from vp import chx
from vp.mini import MINI, MINI_P, GROUP, build
from hed.models.hed_tag import HedTag
from hed.schema.hed_schema_group import HedSchemaGroup
from hed.schema.hed_schema_io import parse_version_list
from hed.validator.util.char_util import CharRexValidator
from hed.errors.exceptions import HedFileError

chx.install()
try:
    from vp import chx_hash
    chx_hash.install()
except ImportError:
    pass

MINI_A = build("a:")        # a second library prefix whose letter also starts node names (A, a/b, ...)
GROUP_A = HedSchemaGroup([MINI, MINI_A])
_PFX = ["p:", "a:"]
_GROUPS = [GROUP, GROUP_A]
_MEMBERS = [MINI_P, MINI_A]
_SCRATCH = build()          # a schema object whose prefix the harness may change
_SCRATCH2 = build()


# ------------------------------------------------------------------ namespace extraction
def _ref_namespace(t):
    """text up to and including the first ':' iff that colon precedes the first '/'"""
    i = 0
    for ch in t:
        if ch == "/":
            return ""
        if ch == ":":
            return t[:i + 1]
        i += 1
    return ""


def namespace_extract(t: str) -> bool:
    """
    pre: len(t) <= R.N(5)
    pre: R.scell(t, ":/")
    post: _
    """
    return HedTag._get_schema_namespace(t) == _ref_namespace(t)


# ------------------------------------------------------------------ dispatch equivalence
def _codes(issues):
    return sorted([i["code"] for i in issues])


def _view(tag_text, schema):
    tag = HedTag(tag_text, schema)
    issues = tag._calculate_to_canonical_forms(schema)
    entry = tag._schema_entry
    return (entry.long_tag_name if entry else None, tag._extension_value, _codes(issues)), entry


def prefixed_equals_alone(t: str, k: int) -> bool:
    """
    pre: 1 <= len(t) <= R.N(3)
    pre: R.scell(t, "/")
    pre: R.ascii_printable(t)
    pre: ":" not in t
    pre: 0 <= k <= 1 and (R.env_int("VP_K") is None or k == R.env_int("VP_K"))
    post: _
    """
    # a tag carrying prefix p: in the group is judged exactly as the unprefixed tag against p's schema alone
    # (k selects the library prefix: "p:" or "a:" - the latter shares its letter with node names)
    GROUP = _GROUPS[k]
    in_group, e1 = _view(_PFX[k] + t, GROUP)
    alone, e2 = _view(t, MINI)            # the member schema is the same schema as MINI, loaded under the prefix
    if in_group != alone:
        return False
    if e1 is not None and e1 is not _MEMBERS[k].tags.get(e1.name):
        return False                      # resolved inside the wrong member schema
    # an unprefixed tag in the group is judged as against the unprefixed schema alone (same entry object)
    in_group_u, e3 = _view(t, GROUP)
    alone_u, e4 = _view(t, MINI)
    return in_group_u == alone_u and e3 is e4


def _alpha(q):
    if len(q) == 0:
        return False
    for c in q:
        if not ("a" <= c <= "z" or "A" <= c <= "Z"):
            return False
    return True


def foreign_prefix(q: str, t: str) -> bool:
    """
    pre: 1 <= len(q) <= R.N(2)
    pre: len(t) <= 1
    pre: R.ascii_printable(q) and R.ascii_printable(t)
    pre: ":" not in q and "/" not in q
    pre: q != "p"
    post: _
    """
    # a prefix that is not loaded is an error; one that is not alphabetic is an error of its own kind
    text = q + ":" + t
    tag = HedTag(text, GROUP)
    issues = tag._calculate_to_canonical_forms(GROUP)
    if tag._schema_entry is not None:
        return False
    if "TAG_NAMESPACE_PREFIX_INVALID" not in _codes(issues):     # published code of "library prefix not loaded"
        return False
    prefix_issues = _codes(CharRexValidator._check_invalid_prefix_issues(tag))
    if _alpha(q):
        return prefix_issues == []
    return prefix_issues == ["TAG_NAMESPACE_PREFIX_INVALID"]


def set_prefix_syntax(q: str, colon: bool) -> bool:
    """
    pre: len(q) <= R.N(3)
    pre: R.env_int("VP_LEN") is None or len(q) == R.env_int("VP_LEN")
    pre: R.ascii_printable(q)
    pre: ":" not in q
    post: _
    """
    arg = q + ":" if colon else q
    try:
        _SCRATCH.set_schema_prefix(arg)
    except HedFileError:
        _SCRATCH.set_schema_prefix("")
        # refused: legal iff the prefix body is not purely alphabetic (the empty prefix is always allowed)
        return not (arg == "" or _alpha(q))
    got = _SCRATCH._namespace
    _SCRATCH.set_schema_prefix("")
    if arg == "":
        return got == ""
    return _alpha(q) and got == q + ":"


def same_prefix_refused(q1: str, q2: str) -> bool:
    """
    pre: len(q1) <= 2 and len(q2) <= 2
    pre: R.over(q1, "ab") and R.over(q2, "ab")
    post: _
    """
    # two schemas under one prefix are refused by the group; distinct prefixes are accepted
    _SCRATCH.set_schema_prefix(q1)
    _SCRATCH2.set_schema_prefix(q2)
    try:
        HedSchemaGroup([_SCRATCH, _SCRATCH2])
        ok = True
    except HedFileError:
        ok = False
    finally:
        _SCRATCH.set_schema_prefix("")
        _SCRATCH2.set_schema_prefix("")
    return ok == (q1 != q2)


def _split(v):
    i = 0
    for ch in v:
        if ch == ":":
            return v[:i], v[i + 1:]
        i += 1
    return "", v


def version_list(v1: str, v2: str, v3: str, n: int) -> bool:
    """
    pre: 1 <= n <= 3
    pre: len(v1) <= 2 and len(v2) <= 2 and len(v3) <= 1
    pre: R.over(v1, "ab:") and R.over(v2, "ab:") and R.over(v3, "ab:")
    pre: R.env_int("VP_K") is None or n == R.env_int("VP_K")
    post: _
    """
    items = [v1, v2, v3][:n]
    pairs = [_split(v) for v in items]
    dup = False
    for i in range(len(pairs)):
        for j in range(i + 1, len(pairs)):
            if pairs[i] == pairs[j]:
                dup = True
    try:
        out = parse_version_list(items)
    except HedFileError:
        return dup                     # the same library twice under one prefix is refused
    if dup:
        return False
    # every item is listed exactly once under its own prefix, in order
    for ns, ver in pairs:
        mine = [v for (m, v) in pairs if m == ns]
        want = ",".join(mine) if ns == "" else ns + ":" + ",".join(mine)
        if out.get(ns) != want:
            return False
    return len(out) == len([1 for i in range(len(pairs)) if pairs[i][0] not in [p[0] for p in pairs[:i]]])


_ST = ["mini schema (25-node tag tree, real 8.3.0 unit/value classes) loaded unprefixed and as 'p:' / 'a:'",
       "chx ASCII casefold accelerator"]

HARNESSES = [
    R.H("namespace_extract", ["hed.models.hed_tag.HedTag._get_schema_namespace"],
        quick=R.tier(cells=R.str_cells(5, split1_from=5, nclass=3), env={"VP_N": 5}, timeout=120,
                     bound="every Unicode string t, len <= 5"),
        thorough=R.tier(cells=R.str_cells(8, split1_from=5, split2_from=7, nclass=3), env={"VP_N": 8}, timeout=600,
                        bound="every Unicode string t, len <= 8"),
        what="namespace = text up to and including the first ':' iff that colon precedes the first '/'",
        oracle="inline left-to-right scan", outside="longer strings"),
    R.H("prefixed_equals_alone",
        ["hed.schema.hed_schema_group.HedSchemaGroup.find_tag_entry", "hed.schema.hed_schema.HedSchema.find_tag_entry",
         "hed.schema.hed_schema.HedSchema._find_tag_entry", "hed.schema.hed_schema.HedSchema._find_tag_subfunction",
         "hed.schema.hed_schema_group.HedSchemaGroup.schema_for_namespace",
         "hed.models.hed_tag.HedTag._calculate_to_canonical_forms"],
        quick=R.tier(cells=R.product_cells(R.int_cells("VP_K", 0, 1), R.str_cells(3, split1_from=3, nclass=2, minlen=1)),
                     env={"VP_N": 3}, timeout=300,
                     bound="every printable-ASCII tag text t without ':', 1 <= len(t) <= 3"),
        thorough=R.tier(cells=R.product_cells(R.int_cells("VP_K", 0, 1),
                                              R.str_cells(4, split1_from=3, split2_from=4, nclass=2, minlen=1)),
                        env={"VP_N": 4},
                        timeout=1200, bound="same with len(t) <= 4"),
        what="'p:'+t in the group resolves to the same node name, remainder and issue codes as t against p's schema "
             "alone, inside the p: member schema; unprefixed t in the group equals t against the unprefixed schema",
        oracle="second run of the real code on the single schema", stubs=_ST,
        outside="real library schemas (score, testlib), partnered merging, clash detection between real libraries"),
    R.H("foreign_prefix",
        ["hed.schema.hed_schema_group.HedSchemaGroup.find_tag_entry",
         "hed.validator.util.char_util.CharRexValidator._check_invalid_prefix_issues"],
        quick=R.tier(env={"VP_N": 2}, timeout=200, bound="prefix q: 1-2 printable ASCII chars (no ':' '/'), q != 'p'; "
                                                       "tag body <= 1 char"),
        thorough=R.tier(env={"VP_N": 2}, timeout=900, bound="prefix q: 1-2 chars (3 did not exhaust in 900 CPU-s)"),
        what="an unloaded prefix gives no entry and an error with the published code TAG_NAMESPACE_PREFIX_INVALID; the "
             "character-level prefix check flags a prefix iff it is not purely alphabetic",
        oracle="inline ASCII-letters predicate", stubs=_ST, outside="non-ASCII prefixes"),
    R.H("set_prefix_syntax", ["hed.schema.hed_schema.HedSchema.set_schema_prefix"],
        quick=R.tier(cells=R.int_cells("VP_LEN", 0, 2), env={"VP_N": 2}, timeout=200,
                     bound="prefix body q: <= 2 printable ASCII chars, with/without colon"),
        thorough=R.tier(cells=R.int_cells("VP_LEN", 0, 3), env={"VP_N": 3}, timeout=1500, bound="q <= 3 chars"),
        what="set_schema_prefix raises HedFileError iff the body is non-empty-required and not purely alphabetic; "
             "otherwise the stored namespace is the body plus ':'",
        oracle="inline", stubs=_ST, outside="non-ASCII prefixes"),
    R.H("same_prefix_refused", ["hed.schema.hed_schema_group.HedSchemaGroup.__init__"],
        quick=R.tier(timeout=200, bound="two prefixes over {a,b}, len <= 2 (solver-enumerated: the constructor hashes them)"),
        what="HedSchemaGroup refuses two schemas under one prefix and accepts distinct prefixes",
        oracle="inline", stubs=_ST, outside="name clashes between different real libraries under one prefix"),
    R.H("version_list", ["hed.schema.hed_schema_io.parse_version_list"],
        quick=R.tier(cells=R.int_cells("VP_K", 1, 3), timeout=200,
                     bound="1-3 version items over {a,b,:}, lengths <= 2,2,1 (solver-enumerated: dict keys are hashed)"),
        what="the same library twice under one prefix is refused with HedFileError; otherwise each item is listed "
             "once under its own prefix in order",
        oracle="inline", stubs=[], outside="actually loading the listed versions (file I/O)"),
]
