"""C16 — each dataset file is validated with its inherited, merged sidecar (reachable part: name parsing,
applicability predicate, root->leaf walk, merge, and BidsFileGroup's wiring of the four)."""
from vp import reg as R
from vp import chx, bids_stub
from models import bids_ref as M
from hed.errors.exceptions import HedFileError
from hed.models.sidecar import Sidecar
from hed.tools.util import io_util
from hed.tools.bids.bids_sidecar_file import BidsSidecarFile
from hed.tools.bids.bids_tabular_file import BidsTabularFile
from hed.tools.bids.bids_file_group import BidsFileGroup

chx.install()               # parse_bids_filename lower-cases the extension

_HARDWIRE_KNOWN = False     # while developing: exclusions active without known_findings.json


def _known(fid, verdict):
    if _HARDWIRE_KNOWN:
        return bool(verdict) and R.env_int("VP_NO_EXCLUDE") is None
    return R.known(fid, verdict)


def _envcell(**vals):
    """True iff every given value equals its VP_<NAME> cell variable (unset = any)."""
    for name, v in vals.items():
        t = R.env_int("VP_" + name.upper())
        if t is not None and v != t:
            return False
    return True


# ------------------------------------------------------------------ 1. name parsing
_PARSE_ALPHABET = "aB-_. /"
_PARSE_CLASSES = ["-", "_", ".", " ", "/"]     # partition classes of the first characters (+ "other")


def _no(s, chars):
    for c in s:
        if c in chars:
            return False
    return True


def parse_total(s: str) -> bool:
    """
    pre: len(s) <= R.N(4)
    pre: R.over(s, _PARSE_ALPHABET)
    pre: R.scell(s, _PARSE_CLASSES)
    post: _
    """
    try:
        res = io_util.parse_bids_filename(s)
    except HedFileError:
        return True
    # any other exception escapes -> violation
    if not (isinstance(res, tuple) and len(res) == 3):
        return False
    suffix, ext, ents = res
    if not (isinstance(ext, str) and (ext == "" or ext[0] == ".")):
        return False
    if suffix is not None and not (isinstance(suffix, str) and suffix != "" and _no(suffix, "-_/")):
        return False
    if suffix is None and len(ents) == 0:
        return False
    for k, v in ents.items():
        if not (isinstance(k, str) and isinstance(v, str) and _no(k, "-_/") and _no(v, "-_/")):
            return False
    return True


def _alnum(s, lo, hi):
    """BIDS label: [0-9A-Za-z]+ (length in [lo, hi]).  `&`/`|` on symbolic bools build one z3 term
    instead of forking three ways per character."""
    if not (lo <= len(s) <= hi):
        return False
    ok = True
    for c in s:
        o = ord(c)
        ok = ok & (((o >= 48) & (o <= 57)) | ((o >= 65) & (o <= 90)) | ((o >= 97) & (o <= 122)))
    return ok


def _key(s):
    return len(s) == 1 and s in "abc"


def _kcell(k):
    t = R.env_int("VP_K1")
    return t is None or k == "abc"[t]


_PREFIX = ["", "/r.x/a-b_c/"]     # the directory part (with every delimiter in it) must not influence the parse


def parse_roundtrip(k1: str, v1: str, k2: str, v2: str, n: int, suf: str, ext: str, d: int) -> bool:
    """
    pre: 0 <= n <= 2 and 0 <= d <= 1
    pre: _envcell(cnt=n, dirx=d) and _kcell(k1)
    pre: _key(k1) and _key(k2) and k1 != k2
    pre: _alnum(v1, 1, R.N(2)) and _alnum(v2, 1, R.N(2)) and _alnum(suf, 1, R.N(2)) and _alnum(ext, 1, R.N(2))
    post: _
    """
    pairs = [(k1, v1), (k2, v2)][:n]
    name = _PREFIX[d]
    for k, v in pairs:
        name = name + k + "-" + v + "_"
    name = name + suf + "." + ext
    suffix, got_ext, ents = io_util.parse_bids_filename(name)
    if suffix != suf:
        return False
    if got_ext != ("." + ext).lower():      # the extension is reported case-normalised
        return False
    return M.same_mapping(ents, pairs)


# ------------------------------------------------------------------ 2. applicability predicate
_DIRS = [(), ("sub-1",), ("sub-1", "ses-1"), ("sub-10",), ("sub-1", "ses-2"), ("sub-1", "ses-1", "eeg")]
_NDIRS_DEFAULT = 5      # the three-level directory (index 5) is used by sidecar_chain_deep only
_ROOT = "/d"


def _path(d, name):
    return "/".join((_ROOT,) + _DIRS[d] + (name,))


def _lab(s):
    """every key, value and suffix of one call has the same length VP_LL (labels of different lengths are
    trivially unequal; variable lengths would fork 2**10 ways before the target is entered)"""
    return len(s) == R.env_int("VP_LL", 1)


def sidecar_applies(k1: str, v1: str, k2: str, v2: str, n_s: int, fk1: str, fv1: str, fk2: str, fv2: str,
                    n_f: int, ssuf: str, fsuf: str, sd: int, fd: int, itself: bool) -> bool:
    """
    pre: 0 <= n_s <= 2 and 0 <= n_f <= 2 and 0 <= sd <= 4 and 0 <= fd <= 4
    pre: _envcell(ns=n_s, nf=n_f)
    pre: _lab(k1) and _lab(v1) and _lab(k2) and _lab(v2) and _lab(fk1) and _lab(fv1) and _lab(fk2) and _lab(fv2)
    pre: _lab(ssuf) and _lab(fsuf)
    pre: k1 != k2 and fk1 != fk2
    post: _
    """
    sp = [(k1, v1), (k2, v2)][:n_s]
    fp = [(fk1, fv1), (fk2, fv2)][:n_f]
    sc = bids_stub.bare(BidsSidecarFile, _path(sd, "s_x.json"), ssuf, ".json", {k: v for k, v in sp})
    if itself:
        f, fp, fsuf, fd = sc, sp, ssuf, sd
    else:
        f = bids_stub.bare(BidsTabularFile, _path(fd, "f_x.tsv"), fsuf, ".tsv", {k: v for k, v in fp})
    exp = M.applicable(ssuf, _DIRS[sd], sp, fsuf, _DIRS[fd], fp)
    return sc.is_sidecar_for(f) == exp



# ------------------------------------------------------------------ 3. root -> leaf walk
# An entity map is one string "k1v1k2v2" of 0, 2 or 4 characters (1-character keys and values).
def _pairs(e):
    if len(e) == 0:
        return []
    if len(e) == 2:
        return [(e[0], e[1])]
    return [(e[0], e[1]), (e[2], e[3])]


def _emap(e, maxn=2):
    if len(e) == 0:
        return True
    if len(e) == 2:
        return maxn >= 1
    return len(e) == 4 and maxn >= 2 and e[0] != e[2]


def _one(s):
    return len(s) == 1


def _ndirs():
    return R.env_int("VP_NDIRS", _NDIRS_DEFAULT)


def _scene(nsc, specs, ssuf, fe, fsuf, fd):
    """real objects + reference records for `nsc` sidecars (in directory-list order) and one data file"""
    objs, recs, dir_dict, by_path = [], [], {}, {}
    for i in range(nsc):
        e, d = specs[i]
        pairs = _pairs(e)
        path = _path(d, "s%d_x.json" % i)
        o = bids_stub.bare(BidsSidecarFile, path, ssuf, ".json", {k: v for k, v in pairs})
        objs.append(o)
        recs.append((ssuf, _DIRS[d], pairs))
        dir_dict.setdefault("/".join((_ROOT,) + _DIRS[d]), []).append(o)
        by_path[path] = o
    fpairs = _pairs(fe)
    fobj = bids_stub.bare(BidsTabularFile, _path(fd, "f_x.tsv"), fsuf, ".tsv", {k: v for k, v in fpairs})
    return objs, recs, dir_dict, by_path, fobj, fpairs


def _unused_fixed(nsc, ae, ad, be, bd, ce, cd):
    """arguments of absent sidecars are pinned so that they do not multiply paths"""
    if nsc < 3 and not (ce == "" and cd == 0):
        return False
    if nsc < 2 and not (be == "" and bd == 0):
        return False
    if nsc < 1 and not (ae == "" and ad == 0):
        return False
    return True


def sidecar_chain(nsc: int, ae: str, ad: int, be: str, bd: int, ce: str, cd: int, ssuf: str,
                  fe: str, fsuf: str, fd: int) -> bool:
    """
    pre: 0 <= nsc <= R.env_int("VP_NSC", 3)
    pre: 0 <= ad < _ndirs() and 0 <= bd < _ndirs() and 0 <= cd < _ndirs() and 0 <= fd < _ndirs()
    pre: _envcell(fd=fd, ad=ad, bd=bd)
    pre: _unused_fixed(nsc, ae, ad, be, bd, ce, cd)
    pre: _emap(ae, R.N(2)) and _emap(be, R.N(2)) and _emap(ce, R.N(2)) and _emap(fe, R.M(2))
    pre: _one(ssuf) and _one(fsuf)
    post: _
    """
    objs, recs, dir_dict, by_path, fobj, fpairs = _scene(nsc, [(ae, ad), (be, bd), (ce, cd)], ssuf, fe, fsuf, fd)
    exp = M.chain(recs, fsuf, _DIRS[fd], fpairs)
    if exp is None:
        return True         # two applicable sidecars in one directory: BIDS forbids it, the property is silent
    g = BidsFileGroup.__new__(BidsFileGroup)
    g.root_path = _ROOT
    g.suffix = "x"
    g.sidecar_dir_dict = dir_dict
    got = g.get_sidecars_from_path(fobj)
    return got == [objs[i].file_path for i in exp]


def sidecar_chain_deep(nsc: int, ae: str, ad: int, be: str, bd: int, ssuf: str, fe: str, fsuf: str) -> bool:
    """
    pre: 0 <= nsc <= 2
    pre: 0 <= ad < len(_DIRS) and 0 <= bd < len(_DIRS)
    pre: _envcell(fd=5, ad=ad, bd=bd)
    pre: _unused_fixed(nsc, ae, ad, be, bd, "", 0)
    pre: _emap(ae, 1) and _emap(be, 1) and _emap(fe, 1)
    pre: _one(ssuf) and _one(fsuf)
    post: _
    """
    fd = 5                  # the data file sits three directories below the root: /d/sub-1/ses-1/eeg
    objs, recs, dir_dict, by_path, fobj, fpairs = _scene(nsc, [(ae, ad), (be, bd)], ssuf, fe, fsuf, fd)
    exp = M.chain(recs, fsuf, _DIRS[fd], fpairs)
    if exp is None:
        return True
    g = BidsFileGroup.__new__(BidsFileGroup)
    g.root_path = _ROOT
    g.suffix = "x"
    g.sidecar_dir_dict = dir_dict
    got = g.get_sidecars_from_path(fobj)
    return got == [objs[i].file_path for i in exp]


# ------------------------------------------------------------------ 4. merge
_COLS = "abc"


def _cols(s, present):
    """column names of one JSON file: a string of <= 2 distinct characters of "abc" (absent file: pinned to "")"""
    if not present:
        return s == ""
    if len(s) > 2:
        return False
    for c in s:
        if c not in _COLS[:R.env_int("VP_NCOLS", 3)]:
            return False
    return len(s) < 2 or s[0] != s[1]


def _doc(cols, x1, x2):
    return [(cols[i], (x1, x2)[i]) for i in range(len(cols))]


_MERGE_PATHS = ["/d/s0_x.json", "/d/sub-1/s1_x.json", "/d/sub-1/ses-1/s2_x.json"]


def merge_deeper_wins(nfiles: int, c0: str, x01: int, x02: int, c1: str, x11: int, x12: int,
                      c2: str, x21: int, x22: int) -> bool:
    """
    pre: 0 <= nfiles <= 3
    pre: _envcell(nfiles=nfiles, l0=len(c0), l1=len(c1))
    pre: _cols(c0, nfiles >= 1) and _cols(c1, nfiles >= 2) and _cols(c2, nfiles >= 3)
    post: _
    """
    contents = [_doc(c0, x01, x02), _doc(c1, x11, x12), _doc(c2, x21, x22)][:nfiles]
    paths = _MERGE_PATHS[:nfiles]
    docs = {}
    for i in range(len(paths)):
        docs[paths[i]] = {c: x for c, x in contents[i]}
    with bids_stub.json_files(docs):
        sc = Sidecar(files=paths, name="m")
    return M.same_mapping(sc.loaded_dict, M.merge(contents))


# ------------------------------------------------------------------ 5. BidsFileGroup wiring: file -> merged sidecar
# Fixed contents chosen so that the merged dict determines the chain and the relative order of any two members:
# column "a" is defined by every sidecar, "p<i>" only by sidecar i, and each pair of sidecars shares one column
# that the third does not define.  Every value names the sidecar it came from.
_SHARED = [("a", "b", "d"), ("a", "b", "c"), ("a", "c", "d")]


def _contents(i):
    return [(c, {"HED": "S%d%s" % (i, c)}) for c in _SHARED[i] + ("p%d" % i,)]


def _same_pairs(p, q):
    if len(p) != len(q):
        return False
    for k, v in p:
        if not M.has_pair(q, k, v):
            return False
    return True


def _kf_deepest(nsc, ae, ad, be, bd, ce, cd, ssuf, fe, fsuf, fd):
    """C16-deepest-chain-only: some sidecar that applies to the data file does not apply to the deepest
    applicable sidecar (its entities are not all present in that sidecar's own name)."""
    specs = [(ae, ad), (be, bd), (ce, cd)][:nsc]
    recs = [(ssuf, _DIRS[d], _pairs(e)) for e, d in specs]
    ch = M.chain(recs, fsuf, _DIRS[fd], _pairs(fe))
    if ch is None or len(ch) < 2:
        return False
    dsuf, ddir, dpairs = recs[ch[-1]]
    for i in ch:
        if not M.applicable(recs[i][0], recs[i][1], recs[i][2], dsuf, ddir, dpairs):
            return True
    return False


def group_merged_sidecar(nsc: int, ae: str, ad: int, be: str, bd: int, ce: str, cd: int, ssuf: str,
                         fe: str, fsuf: str, fd: int) -> bool:
    """
    pre: 0 <= nsc <= R.env_int("VP_NSC", 3)
    pre: 0 <= ad < _ndirs() and 0 <= bd < _ndirs() and 0 <= cd < _ndirs() and 0 <= fd < _ndirs()
    pre: _envcell(fd=fd, ad=ad, bd=bd)
    pre: _unused_fixed(nsc, ae, ad, be, bd, ce, cd)
    pre: _emap(ae, R.N(2)) and _emap(be, R.N(2)) and _emap(ce, R.N(2)) and _emap(fe, R.M(2))
    pre: _one(ssuf) and _one(fsuf)
    pre: not _known("C16-deepest-chain-only", _kf_deepest(nsc, ae, ad, be, bd, ce, cd, ssuf, fe, fsuf, fd))
    post: _
    """
    objs, recs, dir_dict, by_path, fobj, fpairs = _scene(nsc, [(ae, ad), (be, bd), (ce, cd)], ssuf, fe, fsuf, fd)
    exp = M.chain(recs, fsuf, _DIRS[fd], fpairs)
    if exp is None:
        return True         # two applicable sidecars in one directory: outside the property
    docs = {}
    for i in range(nsc):
        docs[objs[i].file_path] = {c: x for c, x in _contents(i)}
    with bids_stub.json_files(docs):
        g = bids_stub.FoundGroup(_ROOT, by_path, dir_dict, {fobj.file_path: fobj}, suffix="x")
    want = M.merge([_contents(i) for i in exp])
    used = g.datafile_dict[fobj.file_path].sidecar
    if used is None:
        return want == []
    return M.same_mapping(used.contents.loaded_dict, want)



def _lencell(**vals):
    for name, v in vals.items():
        t = R.env_int("VP_" + name.upper())
        if t is not None and len(v) != 2 * t:
            return False
    return True


def group_two_files(ae: str, be: str, ce: str, ssuf: str, fe1: str, fe2: str, fsuf: str) -> bool:
    """
    pre: _emap(ae, 1) and _emap(be, 1) and _emap(ce, 1) and _emap(fe1, 1) and _emap(fe2, 1)
    pre: _lencell(la=ae, lb=be, lf1=fe1, lf2=fe2)
    pre: _one(ssuf) and _one(fsuf)
    post: _
    """
    # two sidecars in the root, one in sub-1, and TWO data files in sub-1: each data file gets the merge of ITS OWN
    # chain, whatever the other file (which may share the deepest sidecar but not the shallower ones) was given
    objs, recs, dir_dict, by_path, f1, fp1 = _scene(3, [(ae, 0), (be, 0), (ce, 1)], ssuf, fe1, fsuf, 1)
    fp2 = _pairs(fe2)
    f2 = bids_stub.bare(BidsTabularFile, _path(1, "g_x.tsv"), fsuf, ".tsv", {k: v for k, v in fp2})
    exp1 = M.chain(recs, fsuf, _DIRS[1], fp1)
    exp2 = M.chain(recs, fsuf, _DIRS[1], fp2)
    if exp1 is None or exp2 is None:
        return True         # two applicable sidecars in one directory: outside the property
    docs = {}
    for i in range(3):
        docs[objs[i].file_path] = {c: x for c, x in _contents(i)}
    with bids_stub.json_files(docs):
        g = bids_stub.FoundGroup(_ROOT, by_path, dir_dict, {f1.file_path: f1, f2.file_path: f2}, suffix="x")
    for fobj, exp in ((f1, exp1), (f2, exp2)):
        want = M.merge([_contents(i) for i in exp])
        used = g.datafile_dict[fobj.file_path].sidecar
        if used is None:
            if want != []:
                return False
        elif not M.same_mapping(used.contents.loaded_dict, want):
            return False
    return True


_T_PARSE = ["hed.tools.util.io_util.parse_bids_filename", "hed.tools.util.io_util._split_entity"]
_T_APPL = ["hed.tools.bids.bids_sidecar_file.BidsSidecarFile.is_sidecar_for"]
_T_WALK = ["hed.tools.bids.bids_file_group.BidsFileGroup.get_sidecars_from_path",
           "hed.tools.bids.bids_file_group.BidsFileGroup._get_sidecar_for_obj",
           "hed.tools.util.io_util.get_path_components"] + _T_APPL
_T_MERGE = ["hed.models.sidecar.Sidecar.load_sidecar_files", "hed.models.sidecar.Sidecar.load_sidecar_file",
            "hed.models.sidecar.Sidecar.__init__"]
_T_GROUP = ["hed.tools.bids.bids_file_group.BidsFileGroup.__init__",
            "hed.tools.bids.bids_sidecar_file.BidsSidecarFile.set_contents"] + _T_WALK + _T_MERGE

_S_BARE = "BidsSidecarFile/BidsTabularFile objects are built with __new__ and given file_path, suffix, entity_dict " \
          "(BidsFile.__init__ calls os.path.realpath, which lstat()s the path)"
_S_DIRS = "directories are the fixed tree /d, /d/sub-1, /d/sub-1/ses-1, /d/sub-10, /d/sub-1/ses-2 (none exists on disk)"
_S_JSON = "open() and json inside hed.models.sidecar are replaced by vp/bids_stub.json_files: reading path p yields " \
          "the given decoded document"
_S_FOUND = "BidsFileGroup's three discovery methods (_make_sidecar_dict, _make_sidecar_dir_dict, _make_datafile_dict; " \
           "os.walk wrappers) return the given objects (vp/bids_stub.FoundGroup); the rest of __init__ is real"

def _walk_bound(nsc, ndirs, m):
    dirs = "root, sub-1, sub-1/ses-1, sub-10, sub-1/ses-2".split(", ")[:ndirs]
    return ("0..%d sidecars, each in any of %d directories (%s) with an entity map of <= 1 entry, one common suffix; "
            "data file in any of these directories with an entity map of <= %d entries and its own suffix; keys, "
            "values, suffixes any 1-character strings" % (nsc, ndirs, ", ".join(dirs), m))


HARNESSES = [
    R.H("group_two_files", _T_GROUP,
        quick=R.tier(cells=R.product_cells(R.int_cells("VP_LA", 0, 1), R.int_cells("VP_LB", 0, 1),
                                           R.int_cells("VP_LF1", 0, 1), R.int_cells("VP_LF2", 0, 1)), timeout=300,
                     bound="sidecars a, b in the root and c in sub-1, two data files in sub-1; every entity map has <= 1 "
                           "entry with any 1-character key and value; any 1-character suffixes"),
        what="after the real BidsFileGroup constructor each of the two data files carries the merge of its own chain "
             "(the files may share their deepest sidecar and differ in the shallower ones)",
        oracle="models/bids_ref.py chain + merge per file", stubs=[_S_BARE, _S_DIRS, _S_JSON, _S_FOUND],
        outside="more files / deeper trees / entity maps with 2 entries (decided for one file by group_merged_sidecar)"),
    R.H("parse_total", _T_PARSE,
        quick=R.tier(cells=R.str_cells(4, split1_from=3, nclass=len(_PARSE_CLASSES) + 1), env={"VP_N": 4}, timeout=300,
                     bound="every string s over {a,B,-,_,.,space,/} with len(s) <= 4"),
        thorough=R.tier(cells=R.str_cells(5, split1_from=3, split2_from=4, nclass=len(_PARSE_CLASSES) + 1),
                        env={"VP_N": 5}, timeout=900,
                        bound="every string s over {a,B,-,_,.,space,/} with len(s) <= 5"),
        what="parse_bids_filename lets only HedFileError escape; on success it returns (suffix|None, ext, dict) with "
             "ext empty or starting with '.', and no '-', '_' or '/' inside suffix, keys or values",
        oracle="inline structural predicate",
        stubs=["ASCII-exact lower() accelerator vp/chx.py"],
        outside="other alphabets (entity keys are hashed into a real dict, which makes CrossHair enumerate them; the "
                "alphabet holds one representative per character class the parser distinguishes)"),
    R.H("parse_roundtrip", _T_PARSE,
        quick=R.tier(cells=R.product_cells(R.int_cells("VP_CNT", 0, 2), R.int_cells("VP_DIRX", 0, 1)),
                     env={"VP_N": 1}, timeout=300,
                     bound="names <dir>k1-v1_k2-v2_suffix.ext with 0..2 entities, keys distinct in {a,b,c}, values, "
                           "suffix and extension any [0-9A-Za-z]{1}, bare or under the directory /r.x/a-b_c/"),
        thorough=R.tier(cells=R.product_cells(R.int_cells("VP_CNT", 0, 2), R.int_cells("VP_DIRX", 0, 1),
                                              R.int_cells("VP_K1", 0, 2)),
                        env={"VP_N": 2}, timeout=1000, path_timeout=60,
                        bound="as quick with values, suffix and extension any [0-9A-Za-z]{1,2}"),
        what="a well-formed BIDS name parses to exactly its suffix, its (case-normalised) extension and its entity map",
        oracle="models/bids_ref.py same_mapping", stubs=["ASCII-exact lower() accelerator vp/chx.py"],
        outside="longer labels; keys beyond {a,b,c}"),
    R.H("sidecar_applies", _T_APPL,
        quick=R.tier(cells=R.product_cells(R.int_cells("VP_NS", 0, 2), R.int_cells("VP_NF", 0, 2)),
                     env={"VP_LL": 1}, timeout=300,
                     bound="sidecar and file entity maps of 0..2 entries with keys/values any 1-character string, "
                           "suffixes any 1-character string, directories any of 5 fixed ones (root, sub-1, "
                           "sub-1/ses-1, sub-10, sub-1/ses-2), or the sidecar tested against itself"),
        thorough=R.tier(cells=R.product_cells(R.int_cells("VP_NS", 0, 2), R.int_cells("VP_NF", 0, 2),
                                              R.int_cells("VP_LL", 1, 3)),
                        env={}, timeout=600, path_timeout=60,
                        bound="as quick with keys, values and suffixes any strings of one common length L in 1..3"),
        what="is_sidecar_for(f) <=> same suffix and sidecar directory is ancestor-or-self of f's directory and every "
             "sidecar entity occurs in f with the same value",
        oracle="models/bids_ref.py applicable", stubs=[_S_BARE, _S_DIRS],
        outside="entity maps with more than 2 entries; other directory shapes"),
    R.H("sidecar_chain", _T_WALK,
        quick=R.tier(cells=R.product_cells(R.int_cells("VP_FD", 0, 3), R.int_cells("VP_AD", 0, 3)),
                     env={"VP_NSC": 2, "VP_N": 1, "VP_M": 1, "VP_NDIRS": 4}, timeout=300, bound=_walk_bound(2, 4, 1)),
        thorough=R.tier(cells=R.product_cells(R.int_cells("VP_FD", 0, 3), R.int_cells("VP_AD", 0, 3),
                                              R.int_cells("VP_BD", 0, 3)),
                        env={"VP_NSC": 3, "VP_N": 1, "VP_M": 2, "VP_NDIRS": 4}, timeout=900, path_timeout=60,
                        bound=_walk_bound(3, 4, 2)),
        what="get_sidecars_from_path(file) == paths of the applicable sidecars, one per directory on the way from the "
             "root to the file's directory, root first (inputs with two applicable sidecars in one directory are "
             "skipped: BIDS forbids them and the property does not say which wins)",
        oracle="models/bids_ref.py chain", stubs=[_S_BARE, _S_DIRS, "BidsFileGroup made with __new__; root_path and "
                                                  "sidecar_dir_dict given (directory-list order = sidecar index order)"],
        outside="sidecars with different suffixes inside one group (decided per pair by sidecar_applies); more than "
                "1 entity per sidecar; directory discovery"),
    R.H("sidecar_chain_deep", _T_WALK,
        quick=R.tier(cells=R.product_cells([{"VP_AD": d} for d in (0, 1, 2, 5)], [{"VP_BD": d} for d in (0, 1, 2, 5)]),
                     timeout=300,
                     bound="data file in /d/sub-1/ses-1/eeg (three levels); 0..2 sidecars, each in any of root, sub-1, "
                           "sub-1/ses-1, sub-1/ses-1/eeg with an entity map "
                           "of <= 1 entry; file entity map <= 1 entry; keys, values, suffixes any 1-character strings"),
        what="same as sidecar_chain for a file three directories deep: every intermediate directory on the way from "
             "the root contributes its applicable sidecar, root first",
        oracle="models/bids_ref.py chain", stubs=[_S_BARE, _S_DIRS + " plus /d/sub-1/ses-1/eeg",
                                                  "BidsFileGroup made with __new__; root_path and sidecar_dir_dict given"],
        outside="deeper trees; more than two sidecars on a three-level path"),
    R.H("merge_deeper_wins", _T_MERGE,
        quick=R.tier(cells=R.int_cells("VP_NFILES", 0, 2) + R.product_cells(R.int_cells("VP_NFILES", 3, 3),
                                                                             R.int_cells("VP_L0", 0, 2)),
                     env={"VP_NCOLS": 2}, timeout=300,
                     bound="0..3 JSON files listed root first, each with 0..2 distinct column names from {a,b} and "
                           "arbitrary integer values"),
        thorough=R.tier(cells=R.int_cells("VP_NFILES", 0, 1)
                        + R.product_cells(R.int_cells("VP_NFILES", 2, 3), R.int_cells("VP_L0", 0, 2),
                                          R.int_cells("VP_L1", 0, 2)),
                        env={"VP_NCOLS": 3}, timeout=600,
                        bound="0..3 JSON files listed root first, each with 0..2 distinct column names from {a,b,c} "
                              "and arbitrary integer values"),
        what="Sidecar(files=[root..leaf]).loaded_dict maps every column defined anywhere to the value from the deepest "
             "file defining it, and nothing else",
        oracle="models/bids_ref.py merge", stubs=[_S_JSON],
        outside="JSON decoding; column names beyond {a,b,c} (dict.update hashes them, CrossHair enumerates)"),
    R.H("group_merged_sidecar", _T_GROUP,
        quick=R.tier(cells=R.product_cells(R.int_cells("VP_FD", 0, 2), R.int_cells("VP_AD", 0, 2)),
                     env={"VP_NSC": 2, "VP_N": 1, "VP_M": 1, "VP_NDIRS": 3}, timeout=300, bound=_walk_bound(2, 3, 1)),
        thorough=R.tier(cells=R.product_cells(R.int_cells("VP_FD", 0, 3), R.int_cells("VP_AD", 0, 3),
                                              R.int_cells("VP_BD", 0, 3)),
                        env={"VP_NSC": 3, "VP_N": 1, "VP_M": 1, "VP_NDIRS": 4}, timeout=1000, path_timeout=60,
                        bound=_walk_bound(3, 4, 1)),
        what="after BidsFileGroup.__init__, datafile_dict[path].sidecar.contents.loaded_dict == top-down merge of the "
             "contents of the file's applicable sidecars (None when there is none); contents are fixed documents "
             "chosen so that the merged dict determines the chain and the relative order of its members",
        oracle="models/bids_ref.py chain + merge", stubs=[_S_BARE, _S_DIRS, _S_JSON, _S_FOUND],
        outside="directory discovery, excluded directories, BidsDataset.validate, the command line"),
]
