"""C16 — each dataset file is validated with its inherited, merged sidecar (reachable part: name parsing,
applicability predicate, root->leaf walk, merge, and BidsFileGroup's wiring of the four)."""
from vp import reg as R
from vp import chx, bids_stub
from vp.sidecar_stub import DecodedFile, _JsonStub
from models import bids_ref as M
import hed.models.sidecar as _sidecar_mod
from hed.errors.exceptions import HedFileError
from hed.models.sidecar import Sidecar
from hed.tools.util import io_util
from hed.tools.bids.bids_sidecar_file import BidsSidecarFile
from hed.tools.bids.bids_tabular_file import BidsTabularFile
from hed.tools.bids.bids_file_group import BidsFileGroup

chx.install()               # parse_bids_filename lower-cases the extension

_HARDWIRE_KNOWN = True      # while developing: exclusions active without known_findings.json


def _known(fid, verdict):
    if _HARDWIRE_KNOWN:
        return bool(verdict)
    return R.known(fid, verdict)


def _envcell(**vals):
    """True iff every given value equals its VP_<NAME> cell variable (unset = any)."""
    for name, v in vals.items():
        t = R.env_int("VP_" + name.upper())
        if t is not None and v != t:
            return False
    return True


# ------------------------------------------------------------------ 1. name parsing
_PARSE_ALPHABET = "aB-_. /"
_PARSE_CLASSES = ["-", "_", ".", " ", "/"]     # partition classes of the first characters (+ "other")


def _no(s, chars):
    for c in s:
        if c in chars:
            return False
    return True


def parse_total(s: str) -> bool:
    """
    pre: len(s) <= R.N(4)
    pre: R.over(s, _PARSE_ALPHABET)
    pre: R.scell(s, _PARSE_CLASSES)
    post: _
    """
    try:
        res = io_util.parse_bids_filename(s)
    except HedFileError:
        return True
    # any other exception escapes -> violation
    if not (isinstance(res, tuple) and len(res) == 3):
        return False
    suffix, ext, ents = res
    if not (isinstance(ext, str) and (ext == "" or ext[0] == ".")):
        return False
    if suffix is not None and not (isinstance(suffix, str) and suffix != "" and _no(suffix, "-_/")):
        return False
    if suffix is None and len(ents) == 0:
        return False
    for k, v in ents.items():
        if not (isinstance(k, str) and isinstance(v, str) and _no(k, "-_/") and _no(v, "-_/")):
            return False
    return True


def _alnum(s, lo, hi):
    """BIDS label: [0-9A-Za-z]+ (length in [lo, hi]).  `&`/`|` on symbolic bools build one z3 term
    instead of forking three ways per character."""
    if not (lo <= len(s) <= hi):
        return False
    ok = True
    for c in s:
        o = ord(c)
        ok = ok & (((o >= 48) & (o <= 57)) | ((o >= 65) & (o <= 90)) | ((o >= 97) & (o <= 122)))
    return ok


def _key(s):
    return len(s) == 1 and s in "abc"


_PREFIX = ["", "/r/sub-1/", "r.x/", "/a-b_c/"]     # directory part must not influence the parse


def parse_roundtrip(k1: str, v1: str, k2: str, v2: str, n: int, suf: str, ext: str, d: int) -> bool:
    """
    pre: 0 <= n <= 2 and 0 <= d <= 3
    pre: _envcell(cnt=n, dirx=d)
    pre: _key(k1) and _key(k2) and k1 != k2
    pre: _alnum(v1, 1, R.N(2)) and _alnum(v2, 1, R.N(2)) and _alnum(suf, 1, R.N(2)) and _alnum(ext, 1, R.N(2))
    post: _
    """
    pairs = [(k1, v1), (k2, v2)][:n]
    name = _PREFIX[d]
    for k, v in pairs:
        name = name + k + "-" + v + "_"
    name = name + suf + "." + ext
    suffix, got_ext, ents = io_util.parse_bids_filename(name)
    if suffix != suf:
        return False
    if got_ext != ("." + ext).lower():      # the extension is reported case-normalised
        return False
    return M.same_mapping(ents, pairs)


# ------------------------------------------------------------------ 2. applicability predicate
_DIRS = [(), ("sub-1",), ("sub-1", "ses-1"), ("sub-10",), ("sub-1", "ses-2")]
_ROOT = "/d"


def _path(d, name):
    return "/".join((_ROOT,) + _DIRS[d] + (name,))


def _lab(s):
    return 1 <= len(s) <= R.M(1)


def sidecar_applies(k1: str, v1: str, k2: str, v2: str, n_s: int, fk1: str, fv1: str, fk2: str, fv2: str,
                    n_f: int, ssuf: str, fsuf: str, sd: int, fd: int, itself: bool) -> bool:
    """
    pre: 0 <= n_s <= 2 and 0 <= n_f <= 2 and 0 <= sd <= 4 and 0 <= fd <= 4
    pre: _envcell(ns=n_s, nf=n_f)
    pre: _lab(k1) and _lab(v1) and _lab(k2) and _lab(v2) and _lab(fk1) and _lab(fv1) and _lab(fk2) and _lab(fv2)
    pre: _lab(ssuf) and _lab(fsuf)
    pre: k1 != k2 and fk1 != fk2
    post: _
    """
    sp = [(k1, v1), (k2, v2)][:n_s]
    fp = [(fk1, fv1), (fk2, fv2)][:n_f]
    sc = bids_stub.bare(BidsSidecarFile, _path(sd, "s_x.json"), ssuf, ".json", {k: v for k, v in sp})
    if itself:
        f, fp, fsuf, fd = sc, sp, ssuf, sd
    else:
        f = bids_stub.bare(BidsTabularFile, _path(fd, "f_x.tsv"), fsuf, ".tsv", {k: v for k, v in fp})
    exp = M.applicable(ssuf, _DIRS[sd], sp, fsuf, _DIRS[fd], fp)
    return sc.is_sidecar_for(f) == exp



# ------------------------------------------------------------------ 3. root -> leaf walk
# An entity map is one string "k1v1k2v2" of 0, 2 or 4 characters (1-character keys and values).
def _pairs(e):
    if len(e) == 0:
        return []
    if len(e) == 2:
        return [(e[0], e[1])]
    return [(e[0], e[1]), (e[2], e[3])]


def _emap(e, maxn=2):
    if len(e) == 0:
        return True
    if len(e) == 2:
        return maxn >= 1
    return len(e) == 4 and maxn >= 2 and e[0] != e[2]


def _one(s):
    return len(s) == 1


def _ndirs():
    return R.env_int("VP_NDIRS", len(_DIRS))


def _scene(nsc, specs, fe, fsuf, fd):
    """real objects + reference records for `nsc` sidecars (in directory-list order) and one data file"""
    objs, recs, dir_dict, by_path = [], [], {}, {}
    for i in range(nsc):
        e, suf, d = specs[i]
        pairs = _pairs(e)
        path = _path(d, "s%d_x.json" % i)
        o = bids_stub.bare(BidsSidecarFile, path, suf, ".json", {k: v for k, v in pairs})
        objs.append(o)
        recs.append((suf, _DIRS[d], pairs))
        dir_dict.setdefault("/".join((_ROOT,) + _DIRS[d]), []).append(o)
        by_path[path] = o
    fpairs = _pairs(fe)
    fobj = bids_stub.bare(BidsTabularFile, _path(fd, "f_x.tsv"), fsuf, ".tsv", {k: v for k, v in fpairs})
    return objs, recs, dir_dict, by_path, fobj, fpairs


def sidecar_chain(nsc: int, ae: str, asuf: str, ad: int, be: str, bsuf: str, bd: int, ce: str, csuf: str, cd: int,
                  fe: str, fsuf: str, fd: int) -> bool:
    """
    pre: 0 <= nsc <= R.env_int("VP_NSC", 3)
    pre: 0 <= ad < _ndirs() and 0 <= bd < _ndirs() and 0 <= cd < _ndirs() and 0 <= fd < _ndirs()
    pre: _envcell(fd=fd, ad=ad, bd=bd)
    pre: _emap(ae, R.N(2)) and _emap(be, R.N(2)) and _emap(ce, R.N(2)) and _emap(fe)
    pre: _one(asuf) and _one(bsuf) and _one(csuf) and _one(fsuf)
    post: _
    """
    objs, recs, dir_dict, by_path, fobj, fpairs = _scene(nsc, [(ae, asuf, ad), (be, bsuf, bd), (ce, csuf, cd)],
                                                         fe, fsuf, fd)
    exp = M.chain(recs, fsuf, _DIRS[fd], fpairs)
    if exp is None:
        return True         # two applicable sidecars in one directory: BIDS forbids it, the property is silent
    g = BidsFileGroup.__new__(BidsFileGroup)
    g.root_path = _ROOT
    g.suffix = "x"
    g.sidecar_dir_dict = dir_dict
    got = g.get_sidecars_from_path(fobj)
    return got == [objs[i].file_path for i in exp]


# ------------------------------------------------------------------ 4. merge
_COLS = "abc"


def _col(s):
    return len(s) == 1 and s in _COLS


def _doc(n, c1, x1, c2, x2):
    return [(c1, x1), (c2, x2)][:n]


def merge_deeper_wins(n0: int, c01: str, x01: int, c02: str, x02: int, n1: int, c11: str, x11: int, c12: str,
                      x12: int, n2: int, c21: str, x21: int, c22: str, x22: int, nfiles: int) -> bool:
    """
    pre: 0 <= nfiles <= 3 and 0 <= n0 <= 2 and 0 <= n1 <= 2 and 0 <= n2 <= 2
    pre: _envcell(nfiles=nfiles, n0=n0, n1=n1)
    pre: _col(c01) and _col(c02) and _col(c11) and _col(c12) and _col(c21) and _col(c22)
    pre: c01 != c02 and c11 != c12 and c21 != c22
    post: _
    """
    contents = [_doc(n0, c01, x01, c02, x02), _doc(n1, c11, x11, c12, x12), _doc(n2, c21, x21, c22, x22)][:nfiles]
    paths = ["/d/s0_x.json", "/d/sub-1/s1_x.json", "/d/sub-1/ses-1/s2_x.json"][:nfiles]
    docs = {}
    for i in range(len(paths)):
        docs[paths[i]] = {c: x for c, x in contents[i]}
    with bids_stub.json_files(docs):
        sc = Sidecar(files=paths, name="m")
    return M.same_mapping(sc.loaded_dict, M.merge(contents))


# ------------------------------------------------------------------ 5. BidsFileGroup wiring: file -> merged sidecar
def _contents(i, mask):
    """columns 'a' (bit 0) and 'b' (bit 1) of sidecar i; the value names the sidecar it came from"""
    out = []
    if mask == 1 or mask == 3:
        out.append(("a", {"HED": "S%da" % i}))
    if mask == 2 or mask == 3:
        out.append(("b", {"HED": "S%db" % i}))
    return out


def _same_pairs(p, q):
    if len(p) != len(q):
        return False
    for k, v in p:
        if not M.has_pair(q, k, v):
            return False
    return True


def _kf_deepest(nsc, ae, asuf, ad, acols, be, bsuf, bd, bcols, ce, csuf, cd, ccols, fe, fsuf, fd):
    """C16-deepest-chain-only: some sidecar that applies to the data file does not apply to the deepest
    applicable sidecar (its entities are not a subset of that sidecar's) and contributes a column value
    the deeper ones do not override."""
    specs = [(ae, asuf, ad, acols), (be, bsuf, bd, bcols), (ce, csuf, cd, ccols)][:nsc]
    recs = [(suf, _DIRS[d], _pairs(e)) for e, suf, d, _ in specs]
    ch = M.chain(recs, fsuf, _DIRS[fd], _pairs(fe))
    if ch is None or len(ch) < 2:
        return False
    dsuf, ddir, dpairs = recs[ch[-1]]
    kept = [i for i in ch if M.applicable(recs[i][0], recs[i][1], recs[i][2], dsuf, ddir, dpairs)]
    full = M.merge([_contents(i, specs[i][3]) for i in ch])
    part = M.merge([_contents(i, specs[i][3]) for i in kept])
    return not _same_pairs(full, part)


def group_merged_sidecar(nsc: int, ae: str, asuf: str, ad: int, acols: int, be: str, bsuf: str, bd: int, bcols: int,
                         ce: str, csuf: str, cd: int, ccols: int, fe: str, fsuf: str, fd: int) -> bool:
    """
    pre: 0 <= nsc <= R.env_int("VP_NSC", 3)
    pre: 0 <= ad < _ndirs() and 0 <= bd < _ndirs() and 0 <= cd < _ndirs() and 0 <= fd < _ndirs()
    pre: 0 <= acols <= 3 and 0 <= bcols <= 3 and 0 <= ccols <= 3
    pre: _envcell(fd=fd, ad=ad, bd=bd)
    pre: _emap(ae, R.N(2)) and _emap(be, R.N(2)) and _emap(ce, R.N(2)) and _emap(fe)
    pre: _one(asuf) and _one(bsuf) and _one(csuf) and _one(fsuf)
    pre: not _known("C16-deepest-chain-only", _kf_deepest(nsc, ae, asuf, ad, acols, be, bsuf, bd, bcols, ce, csuf, cd, ccols, fe, fsuf, fd))
    post: _
    """
    masks = [acols, bcols, ccols]
    objs, recs, dir_dict, by_path, fobj, fpairs = _scene(nsc, [(ae, asuf, ad), (be, bsuf, bd), (ce, csuf, cd)],
                                                         fe, fsuf, fd)
    exp = M.chain(recs, fsuf, _DIRS[fd], fpairs)
    if exp is None:
        return True         # two applicable sidecars in one directory: outside the property
    docs = {}
    for i in range(nsc):
        docs[objs[i].file_path] = {c: x for c, x in _contents(i, masks[i])}
    with bids_stub.json_files(docs):
        g = bids_stub.FoundGroup(_ROOT, by_path, dir_dict, {fobj.file_path: fobj}, suffix="x")
    want = M.merge([_contents(i, masks[i]) for i in exp])
    used = g.datafile_dict[fobj.file_path].sidecar
    if used is None:
        return want == []
    return M.same_mapping(used.contents.loaded_dict, want)


_T_PARSE = ["hed.tools.util.io_util.parse_bids_filename", "hed.tools.util.io_util._split_entity"]
_T_APPL = ["hed.tools.bids.bids_sidecar_file.BidsSidecarFile.is_sidecar_for"]

HARNESSES = [
    R.H("parse_total", _T_PARSE,
        quick=R.tier(cells=R.str_cells(4, split1_from=3, split2_from=4), env={"VP_N": 4}, timeout=120,
                     bound="every string s over {a,B,-,_,.,space,/} with len(s) <= 4"),
        thorough=R.tier(cells=R.str_cells(5, split1_from=3, split2_from=4), env={"VP_N": 5}, timeout=900,
                        bound="every string s over {a,B,-,_,.,space,/} with len(s) <= 5"),
        what="parse_bids_filename lets only HedFileError escape; on success it returns (suffix|None, ext, dict) with "
             "ext empty or starting with '.', and no '-', '_' or '/' inside suffix, keys or values",
        oracle="inline structural predicate",
        stubs=["ASCII-exact lower() accelerator vp/chx.py"],
        outside="other alphabets (entity keys are hashed into a real dict, which makes CrossHair enumerate them; the "
                "alphabet holds one representative per character class the parser distinguishes)"),
    R.H("parse_roundtrip", _T_PARSE,
        quick=R.tier(cells=R.product_cells(R.int_cells("VP_CNT", 0, 2), R.int_cells("VP_DIRX", 0, 3)), env={"VP_N": 2}, timeout=120,
                     bound="names <dir>k1-v1_k2-v2_suffix.ext with 0..2 entities, keys distinct in {a,b,c}, values, "
                           "suffix and extension any [0-9A-Za-z]{1,2}, four directory prefixes"),
        what="a well-formed BIDS name parses to exactly its suffix, its (case-normalised) extension and its entity map",
        oracle="models/bids_ref.py same_mapping", stubs=["ASCII-exact lower() accelerator vp/chx.py"],
        outside="longer labels; keys beyond {a,b,c}"),
    R.H("sidecar_applies", _T_APPL,
        quick=R.tier(cells=R.product_cells(R.int_cells("VP_NS", 0, 2), R.int_cells("VP_NF", 0, 2)),
                     env={"VP_M": 1}, timeout=120,
                     bound="sidecar and file entity maps of 0..2 entries with keys/values any string of length <= 1, "
                           "suffixes any string of length <= 1, directories any of 5 fixed ones (root, sub-1, "
                           "sub-1/ses-1, sub-10, sub-1/ses-2), or the sidecar tested against itself"),
        what="is_sidecar_for(f) <=> same suffix and sidecar directory is ancestor-or-self of f's directory and every "
             "sidecar entity occurs in f with the same value",
        oracle="models/bids_ref.py applicable", stubs=["file objects built with __new__ (no realpath / lstat)"],
        outside="entity maps with more than 2 entries"),
]
