"""C05 — schemas survive saving and reloading (the part decided here: the text grammar shared by the
MediaWiki and TSV formats, one entry line / attribute list / header line at a time, and the refusal to save a
schema merged from several libraries).

Every harness writes with the REAL writer functions of /repo and reads the written text back with the REAL
reader functions; the entry texts (names, attribute values, descriptions, header values, library name) are
symbolic.  Attribute NAMES are concrete per cell (names of attributes the bundled schemas define): the reader
hashes them (`final_attributes[name] = ...`), which would make the solver enumerate them one by one.
"""
import os
from types import SimpleNamespace as NS

from vp import reg as R
from vp.symstr import fixed, over_class, py_over_class, at_most, py_at_most
from models import wiki_line_ref as ref

from hed.errors.exceptions import HedFileError, HedExceptions
from hed.schema.hed_schema import HedSchema
from hed.schema.hed_schema_constants import HedSectionKey, HedKey, character_types
from hed.schema.hed_schema_entry import HedSchemaEntry
from hed.schema.schema_io import text_util, wiki2schema
from hed.schema.schema_io.schema2base import Schema2Base
from hed.schema.schema_io.schema2wiki import Schema2Wiki
from hed.schema.schema_io.schema2df import Schema2DF
from hed.schema.schema_io.schema2xml import Schema2XML
from hed.schema.schema_io.wiki2schema import SchemaLoaderWiki

# ---------------------------------------------------------------- character classes (from /repo's own table)
_NAME_ASCII = "".join(sorted(c for c in character_types["name"] if len(c) == 1))
_TEXT_ASCII = "".join(sorted(c for c in (character_types["text"] | character_types["comma"]) if len(c) == 1))


# The class tests are single solver terms (vp/symstr.py: one fork per test instead of one per character and
# alternative); `selfcheck_classes` below proves them equal to the plain Python reading.
# 'nonascii' in the schema rules = any code point above 127; white space is left out (see `stubs`).
def _name_text(s):
    return over_class(s, _NAME_ASCII, True)


def _value_text(v):
    """non-empty items over the name class, separated by single commas"""
    return over_class(v, _NAME_ASCII, True, sep=",")


def _desc_text(d):
    """the schema 'text' class plus comma; stripped (representation invariant of every loader)"""
    return over_class(d, _TEXT_ASCII, True, trimmed=" ")


# ---------------------------------------------------------------- cell parameters (concrete per cell)
def _shape():
    return os.environ.get("VP_SHAPE", "V")       # one letter per attribute: T boolean, V valued, L inLibrary


_ATTR_NAMES = [{"T": HedKey.TakesValue, "V": HedKey.SuggestedTag, "L": HedKey.InLibrary},
               {"T": HedKey.ExtensionAllowed, "V": HedKey.UnitClass, "L": HedKey.InLibrary}]


def _vals_ok(v1, v2):
    """values of the attributes the cell's shape uses are in the value class; unused ones are pinned to ''"""
    shape = _shape()
    vals = [v1, v2]
    for i in range(2):
        used = i < len(shape) and shape[i] != "T"
        if used:
            if not (1 <= len(vals[i]) <= R.N(3)) or not _value_text(vals[i]):
                return False
        elif vals[i] != "":
            return False
    return True


def _attrs(v1, v2):
    shape = _shape()
    vals = [v1, v2]
    out = {}
    for i in range(len(shape)):
        out[_ATTR_NAMES[i][shape[i]]] = True if shape[i] == "T" else vals[i]
    return out


def _strip():
    return os.environ.get("VP_STRIP", "0") == "1"


def _kept(attrs):
    """what a reload must show: everything, except inLibrary when the writer saves the unmerged form
    (the loader re-derives inLibrary from the header's library name)"""
    return {n: v for n, v in attrs.items() if not (_strip() and n == HedKey.InLibrary)}


def _writer(init=False):
    w = Schema2DF() if os.environ.get("VP_W", "wiki") == "df" else Schema2Wiki()
    if init:
        w._initialize_output()
    w._strip_out_in_library = _strip()
    return w


# ---------------------------------------------------------------- 1. attribute list
def attr_roundtrip(v1: str, v2: str) -> bool:
    """
    pre: _vals_ok(v1, v2)
    post: _
    """
    attrs = _attrs(fixed(v1), fixed(v2))
    want = _kept(attrs)
    text = _writer()._format_tag_attributes(attrs)
    if not ref.same_pieces(ref.pieces(text), ref.expected_pieces(list(want.items()))):
        return False                                  # independent reading of what was written
    back = text_util.parse_attribute_string(text)     # the reader both text formats use
    if not ref.same_attributes(want, back):
        return False
    return HedSchemaEntry._compare_attributes_no_order(want, back)


# ---------------------------------------------------------------- 2. entry lines
_PARENTS = ["Pa", "Qb", "Rc"]


def _kind():
    return os.environ.get("VP_KIND", "vc")     # vc | unit | tag0..tag3 | ph (value-taking child '#', level 2)


def _name_ok(name):
    if _kind() == "ph":
        return name == "#"
    exact = R.env_int("VP_ML")                  # cells of the two-valued shapes are split by name length
    if exact is not None and len(name) != exact:
        return False
    return 1 <= len(name) <= R.M(2) and _name_text(name)


_AZ = "abcdefghijklmnopqrstuvwxyz"


def _desc_ok(desc):
    """VP_DA selects the description alphabet: the whole schema text class (default), 'az' = lower-case letters
    and blank, 'mk' = lower-case letters, '>', '/' and at most one '<' (longer descriptions over fewer characters)"""
    exact = R.env_int("VP_DL")
    if exact is not None and len(desc) != exact:
        return False
    if len(desc) > R.env_int("VP_D", 3):
        return False
    da = os.environ.get("VP_DA", "text")
    if da == "az":
        return over_class(desc, _AZ + " ", False, trimmed=" ")
    if da == "mk":
        return over_class(desc, _AZ + "<>/", False) and at_most(desc, "<", 1)
    return _desc_text(desc)


# ---- known findings (genuine defects kept out of the search so that the rest of each cell is still exhausted)
def _kf_extend_here(desc):
    """a description containing the words 'extend here': SchemaLoaderWiki._get_tag_name looks for that marker in
    the WHOLE line and then reports an empty name, so the saved line cannot be loaded again"""
    return "extend here" in desc


def _kf_nowiki(desc):
    """a description containing the text <nowiki> or </nowiki>: _remove_nowiki_tag_from_line deletes every such
    token of the line, also inside the description"""
    return "<nowiki>" in desc or "</nowiki>" in desc


def _tracing():
    try:
        from crosshair.tracers import is_tracing
        return is_tracing()
    except Exception:  # noqa  (replay runs without CrossHair)
        return False


class _NameMatch:
    def __init__(self, text, end):
        self._text = text
        self.regs = ((0, end), (0, 0), (0, 0), (0, 0), (end, end))

    def group(self, i):
        if i != 2:
            raise IndexError(i)
        return self._text


class _NameRe:
    """stands in for wiki2schema.tag_name_re during symbolic runs (see line_roundtrip)"""
    def __init__(self, g2, end):
        self.g2, self.end = g2, end

    def search(self, row):
        return _NameMatch(row[self.g2[0]:self.g2[1]], self.end)


_SCHEMA = HedSchema()      # only `_create_tag_entry` is called on it: entries are made, never added


def _loader():
    r = SchemaLoaderWiki.__new__(SchemaLoaderWiki)
    r._schema = _SCHEMA
    r.fatal_errors = []
    r.name = "c05"
    r.appending_to_schema = False
    r._loading_merged = True
    return r


def line_roundtrip(name: str, v1: str, v2: str, desc: str) -> bool:
    """
    pre: _name_ok(name)
    pre: _vals_ok(v1, v2)
    pre: _desc_ok(desc)
    pre: not R.known("C05-desc-extend-here", _kf_extend_here(desc))
    pre: not R.known("C05-desc-nowiki", _kf_nowiki(desc))
    post: _
    """
    kind = _kind()
    name, desc = fixed(name), fixed(desc)
    attrs = _attrs(fixed(v1), fixed(v2))
    schema = _SCHEMA
    parents = []
    if kind == "vc":
        key, level, head = HedSectionKey.ValueClasses, 1, "* " + name
    elif kind == "unit":
        key, level, head = HedSectionKey.Units, 2, "** " + name
    elif kind == "ph":
        key, level, head, parents = HedSectionKey.Tags, 2, "** ", _PARENTS[:1]
    else:
        level = int(kind[3:])
        key, parents = HedSectionKey.Tags, _PARENTS[:level]
        head = "'''" + name + "'''" if level == 0 else "*" * level + " " + name
    long_name = "/".join(parents + [name])

    def entry(of_schema, attributes):
        e = of_schema._create_tag_entry(long_name, key)
        for n, v in attributes.items():
            e._set_attribute_value(n, v)
        e.description = desc if desc != "" else None
        return e

    orig = entry(schema, attrs)
    want = entry(schema, _kept(attrs))

    w = _writer(init=True)
    if key == HedSectionKey.Tags:
        w._write_tag_entry(orig, None, level)
    else:
        w._write_entry(orig, None)
    if len(w.output) < 1:
        return False
    row = w.output[len(w.output) - 1]

    # (a) independent reading of the written line: exactly the original name, level, attributes, description
    p = ref.parse_line(row)
    if p is None:
        return False
    if p[0] != level or p[1] != name or p[3] != want.description:
        return False
    if not ref.same_pieces(ref.pieces(p[2]), ref.expected_pieces(list(want.attributes.items()))):
        return False

    # (b) the library's own reader, as `_split_lines_into_sections` + `_read_schema`/`_read_section` drive it
    rd = _loader()
    row2 = rd._remove_nowiki_tag_from_line(1, (row + "\n").strip())
    stub = None
    if _tracing():
        # The reader's name pattern `(\\*+|'{3})(.*?)('{3})?\\s*([\\[\\{]|$)+` sends CrossHair's regex model into
        # unbounded recursion, so during the SYMBOLIC run `tag_name_re.search` answers from the writer's own
        # layout: group 2 = the text between the asterisks / quotes and the end of the name part, group 4 starts
        # at the first '{' / '[' or at the end of the line.  The rest of `_get_tag_name` ('extend here' test,
        # entity removal, strip) is the real code.  Concrete replays of counterexamples use the real pattern.
        extras = bool(want.attributes) or want.description is not None
        if kind == "ph":
            g2 = (2, 5)
        elif kind == "tag0":
            g2 = (3, len(head) - 3)
        else:
            g2 = (level, len(head))
        stub = _NameRe(g2, (len(head) + (3 if kind == "ph" else 1)) if extras else len(row2))
    if kind == "tag0":
        if not row2.startswith("'''"):
            return False
    elif row2.startswith("'''") or rd._get_tag_level(row2) != level:
        return False
    real_re = wiki2schema.tag_name_re
    try:
        if stub is not None:
            wiki2schema.tag_name_re = stub
        if key == HedSectionKey.Tags:
            back = rd._create_tag_entry(parents, 1, row2)
        else:
            back = rd._create_entry(1, row2, key)
    finally:
        wiki2schema.tag_name_re = real_re
    if back is None or rd.fatal_errors:
        return False
    if back.name != long_name:
        return False
    if back.description != want.description or not ref.same_attributes(want.attributes, back.attributes):
        return False
    return back == want and want == back          # HedSchemaEntry.__eq__ (the library's own equality)


# ---------------------------------------------------------------- 3. header line
_HDR_KEYS = ["version", "library", "withStandard"]


_HDR_ASCII = "".join(chr(i) for i in range(32, 127) if chr(i) != '"')


def _hdr_ok(a, b, c):
    """header values: printable ASCII except the double quote, and code points > 127 that are not white space"""
    used = R.env_int("VP_H", 1)
    vals = [a, b, c]
    for i in range(3):
        if i < used:
            if len(vals[i]) > R.N(3) or not over_class(vals[i], _HDR_ASCII, True):
                return False
        elif vals[i] != "":
            return False
    return True


def header_roundtrip(a: str, b: str, c: str, merged: bool) -> bool:
    """
    pre: _hdr_ok(a, b, c)
    post: _
    """
    used = R.env_int("VP_H", 1)
    vals = [fixed(a), fixed(b), fixed(c)]
    schema = HedSchema()
    schema.header_attributes = {_HDR_KEYS[i]: vals[i] for i in range(used)}
    attrs = schema.get_save_header_attributes(merged)
    pairs = list(attrs.items())
    if os.environ.get("VP_W", "wiki") == "df":
        text = Schema2Base._get_attribs_string_from_schema(attrs, sep=", ")      # as Schema2DF._output_header
        if ref.header_pairs(text) != pairs:
            return False
        back, _ = text_util._parse_header_attributes_line(text)                   # as SchemaLoaderDF
        return ref.same_pieces(list(back.items()), pairs)
    w = Schema2Wiki()
    w._initialize_output()
    w._output_header(attrs, "")
    line = w.output[0]
    if not line.startswith("HED "):
        return False
    if ref.header_pairs(line[4:]) != pairs:
        return False
    rd = SchemaLoaderWiki.__new__(SchemaLoaderWiki)
    rd.name = "c05"
    back = rd._get_header_attributes([line + "\n"])
    return ref.same_pieces(list(back.items()), pairs)


# ---------------------------------------------------------------- 4. refusal to save a multi-library merge
def _lib_ok(lib):
    return len(lib) <= R.N(4)


def _refused(call):
    try:
        call()
    except HedFileError as e:
        return e.code == HedExceptions.SCHEMA_LIBRARY_INVALID
    return False


def save_refusal(lib: str, merged: bool) -> bool:
    """
    pre: _lib_ok(lib)
    post: _
    """
    lib = fixed(lib)
    schema = HedSchema()
    schema.header_attributes = {"version": "1.0.0", "library": lib}
    several = "," in lib                      # a merge of several libraries lists them comma separated
    if schema.can_save() != (not several):
        return False
    if several:
        # every writer and every public save entry point refuses, before writing anything
        for call in (lambda: Schema2Wiki().process_schema(schema, merged),
                     lambda: Schema2XML().process_schema(schema, merged),
                     lambda: Schema2DF().process_schema(schema, merged),
                     lambda: schema.get_as_mediawiki_string(merged),
                     lambda: schema.get_as_xml_string(merged),
                     lambda: schema.get_as_dataframes(merged),
                     lambda: schema.save_as_mediawiki("/nonexistent-c05/x.mediawiki", merged),
                     lambda: schema.save_as_xml("/nonexistent-c05/x.xml", merged),
                     lambda: schema.save_as_dataframes("/nonexistent-c05/x", merged)):
            if not _refused(call):
                return False
        return True
    # a single library (or none) is written: the text writer produces the header with that library name
    out = Schema2Wiki().process_schema(schema, merged)
    return len(out) > 0 and out[0].startswith("HED ")


# ---------------------------------------------------------------- 5. any attribute name made of letters
_LETTERS = "ABCDEFGHIJKLMNOPQRSTUVWXYZabcdefghijklmnopqrstuvwxyz"


def _attr_name_ok(n):
    if not (1 <= len(n) <= R.M(1)):
        return False
    lo, hi = R.env_int("VP_LO", 0), R.env_int("VP_HI", 0x10FFFF)
    if not (lo <= ord(n[0]) <= hi):
        return False
    return over_class(n, _LETTERS, False)


def attr_name_roundtrip(n: str, v: str) -> bool:
    """
    pre: _attr_name_ok(n)
    pre: (v == "") if _shape() == "T" else (1 <= len(v) <= R.N(1) and _value_text(v))
    post: _
    """
    n, v = fixed(n), fixed(v)
    attrs = {n: True if _shape() == "T" else v}
    text = Schema2Wiki()._format_tag_attributes(attrs)
    if not ref.same_pieces(ref.pieces(text), ref.expected_pieces(list(attrs.items()))):
        return False
    back = text_util.parse_attribute_string(text)
    return ref.same_attributes(attrs, back) and HedSchemaEntry._compare_attributes_no_order(attrs, back)


# ---------------------------------------------------------------- 0. the precondition helper itself
def selfcheck_classes(s: str) -> bool:
    """
    pre: len(s) <= R.N(3)
    post: _
    """
    k = R.env_int("VP_K", 0)
    if k == 0:
        return bool(over_class(s, _NAME_ASCII, True)) == py_over_class(s, _NAME_ASCII, True)
    if k == 1:
        return bool(over_class(s, _NAME_ASCII, True, sep=",")) == py_over_class(s, _NAME_ASCII, True, sep=",")
    if k == 2:
        return bool(over_class(s, _TEXT_ASCII, True, trimmed=" ")) == py_over_class(s, _TEXT_ASCII, True, trimmed=" ")
    if k == 3:
        return bool(over_class(s, _HDR_ASCII, True)) == py_over_class(s, _HDR_ASCII, True)
    if k == 4:
        return bool(over_class(s, _LETTERS, False)) == py_over_class(s, _LETTERS, False)
    if k == 5:
        return bool(over_class(s, _AZ + " ", False, trimmed=" ")) == py_over_class(s, _AZ + " ", False, trimmed=" ")
    return (bool(over_class(s, _AZ + "<>/", False)) == py_over_class(s, _AZ + "<>/", False)
            and bool(at_most(s, "<", 1)) == py_at_most(s, "<", 1))


# ---------------------------------------------------------------- 7. one tag row of the TSV form (no file in between)
class _Row(dict):
    """a table row as the TSV reader sees it: item access by column name plus `.index` (the column names)"""
    @property
    def index(self):
        return list(self.keys())


def _tsv_setup():
    if not _TSV:
        from vp.mini import MINI
        from hed.schema.schema_io.df2schema import SchemaLoaderDF
        r = SchemaLoaderDF.__new__(SchemaLoaderDF)
        r._schema = _SCHEMA
        r.fatal_errors = []
        r.name = "c05"
        r.appending_to_schema = False
        r._loading_merged = True
        _TSV.append((MINI, r))
    return _TSV[0]


_TSV = []


def tsv_row_roundtrip(desc: str, v: str) -> bool:
    """
    pre: len(desc) <= R.N(3) and _desc_text(desc)
    pre: 1 <= len(v) <= R.M(2) and _value_text(v)
    pre: R.env_int("VP_DL") is None or len(desc) == R.env_int("VP_DL")
    post: _
    """
    # Schema2DF builds the row of a tag as a plain mapping column -> text; SchemaLoaderDF._create_entry reads such a
    # row back.  The description and the attribute values must come back exactly as they were (the file written
    # and read in between by pandas is outside this claim).
    import copy
    from hed.schema import hed_schema_df_constants as constants
    mini, reader = _tsv_setup()
    desc, v = fixed(desc), fixed(v)
    entry = copy.copy(mini.tags["A/B"])
    entry.attributes = {HedKey.SuggestedTag: v, HedKey.ExtensionAllowed: True}
    entry.description = desc
    w = Schema2DF()
    w._schema = mini
    w._initialize_output()
    w._strip_out_in_library = False
    w._write_tag_entry(entry, level=1)
    row = _Row(w._tag_rows[-1])
    if row[constants.description] != desc:
        return False                                   # the cell holds the description as it is
    back = reader._create_entry(0, row, HedSectionKey.Tags, full_tag_name="A/B")
    if reader.fatal_errors:
        return False
    if (back.description or "") != desc:
        return False
    return HedSchemaEntry._compare_attributes_no_order(entry.attributes, back.attributes)


# ---------------------------------------------------------------- registry
_OUTSIDE = ("XML (ElementTree is a C extension: symbolic text is realised at the first SubElement), TSV files "
            "(pandas), whole-schema equality, cross-format agreement, independent XML reading, partnered "
            "merging/unmerging, rooted re-parenting and generated whole-schema edits are NOT decided here; "
            "only: no loss, symmetric or asymmetric, in the MediaWiki/TSV text grammar for one short entry")
_CLASSES = ("names/attribute values over the schema 'name' class (ASCII letters, digits, '-', '.', '_' and "
            "code points > 127), descriptions over the schema 'text' class plus comma, both taken from "
            "hed_schema_constants.character_types")
_A_WS = ("assumed representation invariant (what every loader produces): names, attribute values and "
         "descriptions are stripped and attribute values / list items are non-empty; therefore code points "
         "> 127 that are white space (str.isspace) are left out of the classes")
_A_NAMES = ("attribute names are concrete per cell (takesValue, extensionAllowed, suggestedTag, unitClass, "
            "inLibrary): the reader hashes them, which would make the solver enumerate them")

_ATTR_T = ["hed.schema.schema_io.schema2base.Schema2Base._format_tag_attributes",
           "hed.schema.schema_io.schema2base.Schema2Base._attribute_disallowed",
           "hed.schema.schema_io.schema2df.Schema2DF._attribute_disallowed",
           "hed.schema.schema_io.text_util.parse_attribute_string",
           "hed.schema.schema_io.text_util._validate_attribute_string",
           "hed.schema.hed_schema_entry.HedSchemaEntry._compare_attributes_no_order"]
_LINE_T = _ATTR_T + [
    "hed.schema.schema_io.schema2wiki.Schema2Wiki._write_tag_entry",
    "hed.schema.schema_io.schema2wiki.Schema2Wiki._write_entry",
    "hed.schema.schema_io.schema2wiki.Schema2Wiki._format_props_and_desc",
    "hed.schema.schema_io.schema2wiki.Schema2Wiki._flush_current_tag",
    "hed.schema.schema_io.wiki2schema.SchemaLoaderWiki._remove_nowiki_tag_from_line",
    "hed.schema.schema_io.wiki2schema.SchemaLoaderWiki._get_tag_level",
    "hed.schema.schema_io.wiki2schema.SchemaLoaderWiki._create_tag_entry",
    "hed.schema.schema_io.wiki2schema.SchemaLoaderWiki._create_entry",
    "hed.schema.schema_io.wiki2schema.SchemaLoaderWiki._get_tag_name",
    "hed.schema.schema_io.wiki2schema.SchemaLoaderWiki._get_tag_attributes",
    "hed.schema.schema_io.wiki2schema.SchemaLoaderWiki._get_line_section",
    "hed.schema.hed_schema_entry.HedSchemaEntry.__eq__",
    "hed.schema.hed_schema_entry.HedTagEntry.__eq__",
    "hed.schema.hed_schema_entry.HedSchemaEntry._set_attribute_value",
    "hed.schema.hed_schema_section.HedSchemaTagSection._create_tag_entry"]

_HDR_T = ["hed.schema.schema_io.schema2base.Schema2Base._get_attribs_string_from_schema",
          "hed.schema.schema_io.schema2wiki.Schema2Wiki._output_header",
          "hed.schema.hed_schema.HedSchema.get_save_header_attributes",
          "hed.schema.schema_io.text_util._parse_header_attributes_line",
          "hed.schema.schema_io.wiki2schema.SchemaLoaderWiki._get_header_attributes",
          "hed.schema.schema_io.wiki2schema.SchemaLoaderWiki._get_header_attributes_internal"]
_REF_T = ["hed.schema.hed_schema.HedSchema.can_save",
          "hed.schema.schema_io.schema2base.Schema2Base.process_schema",
          "hed.schema.hed_schema.HedSchema.get_as_mediawiki_string", "hed.schema.hed_schema.HedSchema.get_as_xml_string",
          "hed.schema.hed_schema.HedSchema.get_as_dataframes", "hed.schema.hed_schema.HedSchema.save_as_mediawiki",
          "hed.schema.hed_schema.HedSchema.save_as_xml", "hed.schema.hed_schema.HedSchema.save_as_dataframes"]


# ================================================================== section traversal (merged / unmerged selection)
class _TEntry:
    """what Schema2Base's traversal reads of an entry: name, attributes, has_attribute, units"""

    def __init__(self, name, in_lib, units=None):
        self.name = name
        self.attributes = {HedKey.InLibrary: "lib"} if in_lib else {}
        self.units = units if units is not None else {}

    def has_attribute(self, key, return_value=False):
        return key in self.attributes


class _TSchema:
    """a schema as process_schema sees it: save-ability, partnership, header, sections"""
    filename = None
    prologue = ""
    epilogue = ""

    def __init__(self, partnered, unit_classes, value_classes):
        self.with_standard = "8.3.0" if partnered else ""
        self.unit_classes = unit_classes
        self._sections = {HedSectionKey.ValueClasses: value_classes}
        self.tags = NS(all_entries=[])

    def can_save(self):
        return True

    def get_save_header_attributes(self, save_merged):
        return {}

    def __getitem__(self, key):
        return self._sections.get(key, {})


class _Recorder(Schema2Base):
    """the real traversal (process_schema, _output_units, _output_section, _should_skip) with recording writers"""

    def _initialize_output(self):
        self.output = []

    def _output_header(self, attributes, prologue):
        pass

    def _output_footer(self, epilogue):
        pass

    def _start_section(self, key_class):
        node = [str(key_class), True, []]
        self.output.append(node)
        return node

    def _end_tag_section(self):
        pass

    def _write_tag_entry(self, tag_entry, parent=None, level=0):
        raise AssertionError("no tags in this harness")

    def _write_entry(self, entry, parent_node, include_props=True):
        node = [entry.name, True if include_props else False, []]
        parent_node[2].append(node)
        return node


def _expected_sections(partnered, merged, classes, units, values):
    """reference: a partnered schema saved unmerged lists exactly its library content -- library unit classes and
    value classes with their properties, library units, and a standard unit class only as a bare container (no
    properties) when it holds a library unit; every other save lists everything with properties"""
    only_lib = partnered and not merged
    uc = []
    for i in range(len(classes)):
        kids = [[f"u{i}{j}", True, []] for j in range(len(units[i])) if units[i][j] or not only_lib]
        if not only_lib or classes[i]:
            uc.append([f"c{i}", True, kids])
        elif kids:
            uc.append([f"c{i}", False, kids])
    vc = [[f"v{i}", True, []] for i in range(len(values)) if values[i] or not only_lib]
    return uc, vc


def section_traversal(partnered: bool, merged: bool, c0: bool, c1: bool, c2: bool, u00: bool, u01: bool, u10: bool,
                      u11: bool, u20: bool, v0: bool, v1: bool) -> bool:
    """
    pre: _pin_bool("VP_P", partnered) and _pin_bool("VP_MG", merged)
    post: _
    """
    classes = [c0, c1, c2]
    units = [[u00, u01], [u10, u11], [u20]]
    values = [v0, v1]
    ucs = {}
    for i in range(3):
        us = {}
        for j in range(len(units[i])):
            us[f"u{i}{j}"] = _TEntry(f"u{i}{j}", units[i][j])
        ucs[f"c{i}"] = _TEntry(f"c{i}", classes[i], us)
    vcs = {}
    for i in range(2):
        vcs[f"v{i}"] = _TEntry(f"v{i}", values[i])
    out = _Recorder().process_schema(_TSchema(partnered, ucs, vcs), save_merged=merged)
    got_uc = [n for n in out if n[0] == str(HedSectionKey.UnitClasses)]
    got_vc = [n for n in out if n[0] == str(HedSectionKey.ValueClasses)]
    if len(got_uc) != 1 or len(got_vc) != 1:
        return False
    want_uc, want_vc = _expected_sections(partnered, merged, classes, units, values)
    return got_uc[0][2] == want_uc and got_vc[0][2] == want_vc


def _pin_bool(name, value):
    want = R.env_int(name)
    return want is None or value == (want == 1)



def _c(shape, n, strip=0, w="wiki", **kw):
    return dict({"VP_SHAPE": shape, "VP_N": n, "VP_STRIP": strip, "VP_W": w}, **kw)


def _attr_cells(d):
    """d = extra value length over the quick tier"""
    return [_c("V", 5 + d), _c("TV", 4 + d), _c("VT", 4 + d), _c("VV", 3 + d), _c("LV", 3 + d),
            _c("LV", 3 + d, strip=1), _c("L", 4 + d, strip=1), _c("V", 4 + d, w="df"), _c("LV", 3 + d, strip=1, w="df")]


def _line_cells(m, d, n, kinds, n2=None):
    n2 = n if n2 is None else n2                 # value bound of the cells with two symbolic values
    cells = []
    for k in kinds:
        cells.append(_c("", n, VP_KIND=k, VP_M=m + 1, VP_D=d + 1))     # no attribute: one character deeper
        cells.append(_c("V", n, VP_KIND=k, VP_M=m, VP_D=d))
    for sh in ("T", "TV", "VT"):
        cells.append(_c(sh, n, VP_KIND="vc", VP_M=m, VP_D=d))
    cells.append(_c("TV", n, VP_KIND="tag1", VP_M=m, VP_D=d))
    cells.append(_c("TV", n, VP_KIND="ph", VP_M=m, VP_D=d))
    cells.append(_c("L", n, strip=1, VP_KIND="unit", VP_M=m, VP_D=d))
    for ml in range(1, m + 1):                   # two symbolic values: one cell per name length
        cells.append(_c("VV", n2, VP_KIND="vc", VP_M=m, VP_D=d, VP_ML=ml))
        cells.append(_c("LV", n2, VP_KIND="tag1", VP_M=m, VP_D=d, VP_ML=ml))
        cells.append(_c("LV", n2, strip=1, VP_KIND="tag1", VP_M=m, VP_D=d, VP_ML=ml))
    return cells


def _word_cells(az_d, az_kinds, mk_lengths):
    """longer descriptions over fewer characters (the solver finds whole words the reader treats specially)"""
    cells = [_c("", 1, VP_KIND=k, VP_M=1, VP_D=az_d, VP_DA="az") for k in az_kinds]
    cells += [_c("", 1, VP_KIND="vc", VP_M=1, VP_D=dl, VP_DL=dl, VP_DA="mk") for dl in mk_lengths]
    return cells


def _name_cells(m, n, parts):
    cells = []
    for sh in ("T", "V"):
        for lo, hi in parts:
            cells.append({"VP_SHAPE": sh, "VP_M": m, "VP_N": n, "VP_LO": lo, "VP_HI": hi})
    return cells


_LINE_WHAT = ("one entry (value class / unit / tag at level 0-3 / value-taking child '#') with 0-2 attributes and a "
              "description is written by the real MediaWiki writer; (a) an independent reading of the written line "
              "lists exactly the original level, name, attribute items and description; (b) the real reader "
              "(_remove_nowiki_tag_from_line, _get_tag_level, _create_tag_entry/_create_entry, _get_tag_attributes, "
              "_get_line_section, parse_attribute_string) reports no error and returns an entry equal to the original "
              "under HedSchemaEntry.__eq__ / HedTagEntry.__eq__ and under a hash-free comparison; with the unmerged "
              "writer setting the inLibrary attribute, and only it, is dropped.  Known findings C05-desc-extend-here "
              "and C05-desc-nowiki (descriptions containing 'extend here' / '<nowiki>' / '</nowiki>') are excluded "
              "from the search only while known_findings.json lists them")
_STUB_NAME = ("wiki2schema.tag_name_re (pattern `(\\*+|'{3})(.*?)('{3})?\\s*([\\[\\{]|$)+`, which makes CrossHair's regex "
              "model recurse without bound) is replaced during the SYMBOLIC run by an object whose search() answers "
              "from the writer's own layout (group 2 = text between the asterisks/quotes and the end of the name, "
              "group 4 at the first '{'/'[' or the end of line); the rest of _get_tag_name is the real code; concrete "
              "replays of counterexamples use the real pattern (stub and pattern agreed on 760 concrete lines)")
_STUB_REPR = ("vp/symstr.py (changes CrossHair's representation, not hed-python): string arguments are re-wrapped "
              "with a concrete length (same z3 code points) and class preconditions are single z3 terms; "
              "selfcheck_classes proves the latter equal to the plain Python predicates")
_STUB_ENTRY = ("entries are made by the real HedSchema._create_tag_entry on an empty HedSchema (never added to it); "
               "the loader object is created with __new__ (no file is opened)")

HARNESSES = [
    R.H("tsv_row_roundtrip",
        ["hed.schema.schema_io.schema2df.Schema2DF._write_tag_entry",
         "hed.schema.schema_io.schema2df.Schema2DF._get_tag_equivalent_to",
         "hed.schema.schema_io.df2schema.SchemaLoaderDF._create_entry",
         "hed.schema.schema_io.df2schema.SchemaLoaderDF._get_tag_attributes",
         "hed.schema.schema_io.df_util.get_attributes_from_row"],
        quick=R.tier(cells=R.int_cells("VP_DL", 0, 3), env={"VP_N": 3, "VP_M": 1}, timeout=700,
                     bound="a tag row with any description of <= 3 characters over the schema text class (+ comma) and "
                           "a suggestedTag value of 1 character over the name class"),
        thorough=R.tier(cells=R.int_cells("VP_DL", 0, 5), env={"VP_N": 5, "VP_M": 2}, timeout=1800, path_timeout=60,
                        bound="description <= 5, value <= 2"),
        what="the row mapping Schema2DF builds for a tag, read back by SchemaLoaderDF._create_entry, gives the same "
             "description and attributes",
        oracle="the original entry (library's own attribute comparison)",
        stubs=["row stub: dict with `.index` (what get_attributes_from_row reads from a pandas row)",
               "real tag entry of the mini schema, shallow-copied with its own attributes/description"],
        outside="the .tsv files written and read by pandas between the two halves; other sections' rows"),
    R.H("attr_roundtrip", _ATTR_T,
        quick=R.tier(cells=_attr_cells(0), timeout=400, path_timeout=60,
                     bound="1-2 attributes (boolean / valued / inLibrary, both writer settings, MediaWiki and TSV "
                           "writer); one value <= 5 chars, with a second attribute <= 4, two values <= 3 each; "
                           "values = comma lists over " + _CLASSES),
        thorough=R.tier(cells=_attr_cells(2), timeout=2400, path_timeout=120,
                        bound="as quick with every value two characters longer (7 / 6 / 5+5)"),
        what="Schema2Base/Schema2DF._format_tag_attributes then text_util.parse_attribute_string: the attribute "
             "text lists exactly the original items (independent reading) and parses back to the same attributes "
             "(library's _compare_attributes_no_order and a hash-free comparison); inLibrary, and only it, is "
             "dropped by the unmerged setting",
        oracle="models/wiki_line_ref.py (pieces / expected_pieces / same_attributes)",
        stubs=[_A_WS, _A_NAMES, _STUB_REPR], outside=_OUTSIDE),
    R.H("line_roundtrip", _LINE_T,
        quick=R.tier(cells=_line_cells(2, 2, 2, ["vc", "unit", "tag0", "tag1", "tag3", "ph"])
                     + _word_cells(12, ["tag1"], [8]), timeout=600, path_timeout=60,
                     bound="name <= 2 chars, description <= 2 chars, attribute values <= 2 chars (entries without "
                           "attributes: name <= 3, description <= 3); " + _CLASSES +
                           "; plus 1-char name, no attributes and a description <= 12 chars over [a-z blank], or "
                           "exactly 8 chars over [a-z > /] with at most one '<'"),
        thorough=R.tier(cells=_line_cells(3, 3, 3, ["vc", "unit", "tag0", "tag1", "tag2", "tag3", "ph"], n2=2)
                        + _word_cells(16, ["tag1", "vc", "ph"], [6, 7, 8, 9]), timeout=3600, path_timeout=120,
                        bound="name <= 3 chars, description <= 3 chars, attribute values <= 3 chars (<= 2 each when two "
                              "attributes carry values; entries without attributes: name <= 4, description "
                              "<= 4); plus "
                              "descriptions <= 16 chars over [a-z blank] and of 6-9 chars over [a-z > /] with at "
                              "most one '<'"),
        what=_LINE_WHAT, oracle="models/wiki_line_ref.py (parse_line: grammar of a schema line written from the "
                                "format description) + the library's own entry equality",
        stubs=[_A_WS, _A_NAMES, _STUB_NAME, _STUB_REPR, _STUB_ENTRY], outside=_OUTSIDE),
    R.H("header_roundtrip", _HDR_T,
        quick=R.tier(cells=[{"VP_H": 1, "VP_N": 4, "VP_W": "wiki"}, {"VP_H": 2, "VP_N": 3, "VP_W": "wiki"},
                            {"VP_H": 3, "VP_N": 2, "VP_W": "wiki"}, {"VP_H": 1, "VP_N": 4, "VP_W": "df"},
                            {"VP_H": 2, "VP_N": 3, "VP_W": "df"}],
                     timeout=400, path_timeout=60,
                     bound="header attributes version / +library / +withStandard with values <= 4 / 3 / 2 chars "
                           "(printable ASCII except the double quote, non-blank code points > 127), merged and "
                           "unmerged ('unmerged=\"True\"' appended)"),
        thorough=R.tier(cells=[{"VP_H": 1, "VP_N": 6, "VP_W": "wiki"}, {"VP_H": 2, "VP_N": 4, "VP_W": "wiki"},
                               {"VP_H": 3, "VP_N": 3, "VP_W": "wiki"}, {"VP_H": 1, "VP_N": 6, "VP_W": "df"},
                               {"VP_H": 2, "VP_N": 4, "VP_W": "df"}, {"VP_H": 3, "VP_N": 3, "VP_W": "df"}],
                        timeout=2400, path_timeout=120, bound="values <= 6 / 4 / 3 chars"),
        what="HedSchema.get_save_header_attributes + Schema2Wiki._output_header (TSV: _get_attribs_string_from_schema "
             "with ', ') then SchemaLoaderWiki._get_header_attributes (TSV: _parse_header_attributes_line): the "
             "header text lists exactly the saved pairs (independent reading) and is read back to the same pairs",
        oracle="models/wiki_line_ref.py (header_pairs)", stubs=[_STUB_REPR, "loader object created with __new__"],
        outside=_OUTSIDE + "; header values containing a double quote or a line break"),
    R.H("section_traversal",
        ["hed.schema.schema_io.schema2base.Schema2Base.process_schema",
         "hed.schema.schema_io.schema2base.Schema2Base._output_units",
         "hed.schema.schema_io.schema2base.Schema2Base._output_section",
         "hed.schema.schema_io.schema2base.Schema2Base._should_skip"],
        quick=R.tier(cells=R.product_cells([{"VP_P": 0}, {"VP_P": 1}], [{"VP_MG": 0}, {"VP_MG": 1}]), timeout=300,
                     bound="three unit classes holding 2, 2 and 1 units and two value classes, every combination of "
                           "inLibrary on each of the ten entries, partnered or not, merged or unmerged save"),
        what="which entries the format-independent traversal hands to the writers: a partnered schema saved "
             "unmerged lists exactly its library entries (a standard unit class only as a property-less container "
             "of its library units, decided per class); every other save lists every entry with its properties, "
             "in section order",
        oracle="inline (_expected_sections)",
        stubs=["recording subclass of Schema2Base (writers append (name, include_props, children)); stub schema "
               "and entries exposing what the traversal reads (with_standard, can_save, sections, name, attributes, "
               "has_attribute, units); no tags"],
        outside="the tag section (_output_tags level adjustment); what the per-format writers do with an entry "
                "(line_roundtrip/attr_roundtrip); more than three unit classes"),
    R.H("save_refusal", _REF_T,
        quick=R.tier(cells=[{"VP_N": 5}], timeout=400, path_timeout=60, bound="library attribute: any text <= 5 chars"),
        thorough=R.tier(cells=[{"VP_N": 8}], timeout=2400, path_timeout=120,
                        bound="library attribute: any text <= 8 chars"),
        what="HedSchema.can_save() is False iff the library attribute contains a comma; then Schema2Wiki/Schema2XML/"
             "Schema2DF.process_schema and the six public get_as_*/save_as_* entry points raise HedFileError "
             "SCHEMA_LIBRARY_INVALID before writing; otherwise Schema2Wiki.process_schema writes the schema",
        oracle="property text: a schema merged from several libraries (library attribute 'a,b,..', as "
               "SchemaLoader builds it for a merge) refuses to save, any other is saved",
        stubs=["an otherwise empty HedSchema carrying the header attributes version and library", _STUB_REPR],
        outside=_OUTSIDE),
    R.H("attr_name_roundtrip", _ATTR_T,
        quick=R.tier(cells=_name_cells(1, 1, [(65, 90), (97, 122)]), timeout=400, path_timeout=60,
                     bound="ONE attribute whose name is any single letter A-Z a-z (enumerated by the solver: the "
                           "reader hashes it), boolean or with a 1-char value"),
        thorough=R.tier(cells=_name_cells(2, 2, [(65, 71), (72, 78), (79, 84), (85, 90), (97, 103), (104, 110),
                                                 (111, 116), (117, 122)]),
                        timeout=3600, path_timeout=120, bound="name any 1-2 letters, value <= 2 chars"),
        what="as attr_roundtrip, with a symbolic attribute NAME over [A-Za-z] (the reader's pattern "
             "`[A-Za-z]+(=.+)?`)", oracle="models/wiki_line_ref.py",
        stubs=[_A_WS, _STUB_REPR, "attribute names are enumerated by the solver (hashing realises them)"],
        outside=_OUTSIDE + "; attribute names with digits or punctuation (the schema rules would allow them for a "
                           "newly defined attribute, the MediaWiki reader does not: see report)"),
    R.H("selfcheck_classes", [],
        quick=R.tier(cells=R.int_cells("VP_K", 0, 6), env={"VP_N": 3}, timeout=400, path_timeout=60,
                     bound="every string <= 3 chars"),
        thorough=R.tier(cells=R.int_cells("VP_K", 0, 6), env={"VP_N": 4}, timeout=2400, path_timeout=120,
                        bound="every string <= 4 chars"),
        what="the single-term class preconditions of vp/symstr.py equal the plain Python predicates "
             "(checks the harness's own helper, no hed-python code)", oracle="py_over_class",
        stubs=[], outside="n/a"),
]
