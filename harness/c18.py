"""C18 — backups restore byte-for-byte and are never half-valid (BackupManager on the MemFS stub)."""
from vp import reg as R
from vp import memfs
from hed.tools.remodeling import backup_manager as bm
from hed.tools.util import io_util

F = ["/data/sub1/sub1_task_a_events.tsv", "/data/sub1/sub1_task_b_events.tsv", "/data/sub2_task_a_events.tsv",
     "/data/sub3/ses1/sub3_task_b_events.tsv"]
TASK_OF = ["a", "b", "a", "b"]
NF = 4
KMAX = 40
TASKSETS = [[], ["a"], ["b"], ["a", "b"], ["zz"]]


def _fresh(nfiles, c):
    fs = memfs.MemFS()
    fs.makedirs("/data/sub1")
    fs.makedirs("/data/sub3/ses1")
    for i in range(NF):
        fs._set(F[i], c[i])
    return fs, [F[i] for i in range(nfiles)]


def crash_backup(k: int, cut: int, nfiles: int, c0: str, c1: str, c2: str, c3: str) -> bool:
    """
    pre: 0 <= k <= KMAX
    pre: -3 <= cut <= 3
    pre: 1 <= nfiles <= R.N(3)
    pre: len(c0) <= 2 and len(c1) <= 2 and len(c2) <= 2 and len(c3) <= 2
    pre: nfiles >= 4 or c3 == ""
    pre: R.env_int("VP_K") is None or k % 4 == R.env_int("VP_K")
    post: _
    """
    c = [c0, c1, c2, c3]
    fs, files = _fresh(nfiles, c)
    with memfs.Patch(fs, [bm, io_util]):
        man = bm.BackupManager("/data")
        fs.ops = 0
        fs.crash_at = k
        fs.cut = cut
        crashed = False
        try:
            ok = man.create_backup(files, "bk")
        except memfs.Crash:
            crashed = True
        fs.crash_at = None
        if not crashed:
            if fs.ops > KMAX:
                raise AssertionError("harness bound KMAX smaller than the number of file-system steps")
            if ok is not True:
                return False
        # what a later process sees
        try:
            man2 = bm.BackupManager("/data")
        except Exception:
            return crashed          # refusing to open = not listed; only legal after an interruption
        rec = man2.get_backup("bk")
        if rec is None:
            return crashed
        b_files = man2.get_backup_files("bk")
        o_files = man2.get_backup_files("bk", original_paths=True)
        if not crashed and len(b_files) != nfiles:
            return False
        for bf, of in zip(b_files, o_files):
            if bf not in fs.files or of not in fs.files:
                return False                      # listed but a recorded file is missing
            if fs.files[bf] != fs.files[of]:
                return False                      # listed but truncated / different
        return True


def _apply(fs, op, new):
    # op 0: nothing; 1..4 modify file op-1; 5..8 delete file op-5
    if 1 <= op <= NF:
        fs._set(F[op - 1], new)
    elif NF + 1 <= op <= 2 * NF:
        p = F[op - NF - 1]
        if p in fs.files:
            del fs.files[p]
            fs.order.remove(p)


def restore_ops(nfiles: int, c0: str, c1: str, c2: str, c3: str, op1: int, op2: int, op3: int, n1: str, n2: str,
                n3: str, tsel: int) -> bool:
    """
    pre: 1 <= nfiles <= R.N(3)
    pre: len(c0) <= 2 and len(c1) <= 2 and len(c2) <= 2 and len(c3) <= 2
    pre: len(n1) <= 2 and len(n2) <= 2 and len(n3) <= 2
    pre: 0 <= op1 <= 2 * NF and 0 <= op2 <= 2 * NF and 0 <= op3 <= 2 * NF
    pre: R.M(2) >= 3 or (op3 == 0 and n3 == "")
    pre: 0 <= tsel <= 4
    pre: R.env_int("VP_K") is None or tsel == R.env_int("VP_K")
    post: _
    """
    c = [c0, c1, c2, c3]
    fs, files = _fresh(nfiles, c)
    with memfs.Patch(fs, [bm, io_util]):
        man = bm.BackupManager("/data")
        if man.create_backup(files, "bk") is not True:
            return False
        _apply(fs, op1, n1)
        _apply(fs, op2, n2)
        _apply(fs, op3, n3)
        before = [fs.files.get(F[i]) for i in range(NF)]
        present = [F[i] in fs.files for i in range(NF)]
        # an existing backup of the same name is never overwritten
        if man.create_backup([F[i] for i in range(NF) if present[i]], "bk") is not False:
            return False
        man3 = bm.BackupManager("/data")
        if man3.create_backup([F[i] for i in range(NF) if present[i]], "bk") is not False:
            return False
        tasks = TASKSETS[tsel]
        man3.restore_backup("bk", task_names=tasks, verbose=False)
        for i in range(NF):
            selected = i < nfiles and (tasks == [] or TASK_OF[i] in tasks)
            if selected:
                if F[i] not in fs.files or fs.files[F[i]] != c[i]:
                    return False
            else:
                if (F[i] in fs.files) != present[i]:
                    return False
                if present[i] and fs.files[F[i]] != before[i]:
                    return False
        # restoring twice equals restoring once
        snap = [fs.files.get(F[i]) for i in range(NF)]
        man3.restore_backup("bk", task_names=tasks, verbose=False)
        for i in range(NF):
            if fs.files.get(F[i]) != snap[i]:
                return False
        return True


_T = ["hed.tools.remodeling.backup_manager.BackupManager.__init__",
      "hed.tools.remodeling.backup_manager.BackupManager.create_backup",
      "hed.tools.remodeling.backup_manager.BackupManager._get_backups",
      "hed.tools.remodeling.backup_manager.BackupManager._check_backup_consistency",
      "hed.tools.remodeling.backup_manager.BackupManager.get_backup_files",
      "hed.tools.remodeling.backup_manager.BackupManager.get_backup_path",
      "hed.tools.remodeling.backup_manager.BackupManager.get_file_key",
      "hed.tools.remodeling.backup_manager.BackupManager.restore_backup",
      "hed.tools.remodeling.backup_manager.BackupManager.get_task",
      "hed.tools.util.io_util.get_file_list", "hed.tools.util.io_util.get_path_components",
      "hed.tools.util.io_util.check_filename"]
_STUBS = ["MemFS in-memory file system swapped into backup_manager/io_util module globals (os, shutil, open): "
          "operations atomic per step (mkdir, create-empty, write, replace) and durable in program order; "
          "no fsync/page-cache reordering", "file paths and task names are fixed; contents are symbolic"]

HARNESSES = [
    R.H("crash_backup", _T,
        quick=R.tier(cells=R.int_cells("VP_K", 0, 3), env={"VP_N": 3}, timeout=200,
                     bound="crash index k in [0,40] (an uninterrupted run takes fewer steps), torn-write cut in "
                           "[-3,3], 1-3 files with any contents of <=2 characters"),
        thorough=R.tier(cells=R.int_cells("VP_K", 0, 3), env={"VP_N": 4}, timeout=1200,
                        bound="same with 1-4 files (a fourth file two directories deep)"),
        what="after a crash at any file-system step of create_backup (torn writes included) a new BackupManager "
             "either refuses/does not list the backup or lists it with every recorded file present and equal to "
             "the original; an uninterrupted run lists all files",
        oracle="inline: listed => complete", stubs=_STUBS,
        outside="fsync/reordering, run_remodel* CLIs, real file systems"),
    R.H("restore_ops", _T,
        quick=R.tier(cells=R.int_cells("VP_K", 0, 4), env={"VP_N": 3, "VP_M": 2}, timeout=300,
                     bound="1-3 backed-up files out of 4 data files, 2 operations from {nothing, modify i, delete i} with "
                           "any new contents <=2 chars, restore of 5 task selections"),
        thorough=R.tier(cells=R.int_cells("VP_K", 0, 4), env={"VP_N": 4, "VP_M": 2}, timeout=1800,
                        bound="1-4 backed-up files, 2 operations (3 operations on 4 files did not exhaust in 1800 CPU-s "
                              "per cell: 9^3 operation triples)"),
        what="restore returns every selected backed-up file to its content at backup time, touches nothing else, "
             "is idempotent; an existing backup name is never overwritten",
        oracle="inline frame/restore predicate", stubs=_STUBS,
        outside="remodel-twice-equals-once through the CLI (pandas I/O)"),
]
