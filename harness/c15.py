"""C15 — search queries obey their documented logic on every annotation.

Parser part: the real recursive-descent parser (QueryHandler._parse and everything below it) runs on token
lists whose token KINDS are symbolic, so one path stands for every query with that kind pattern.
Algebra part: real QueryHandler.search on real HedString trees whose one-character tags are symbolic, over
the term-stub schema (vp/termstub.py); the laws compare runs of the real code with each other.
"""
from typing import List

from vp import reg as R
from vp import chx, astpatch
from vp.termstub import TREE
from models import query_ref as Q
from hed.models.hed_string import HedString
from hed.models.hed_tag import HedTag
from hed.models.query_handler import QueryHandler
from hed.models.query_util import Token

chx.install()
astpatch.is_to_eq(HedString, "split_into_groups")   # `is '('` -> `== '('` (see vp/astpatch.py)


# =====================================================================================================
# Parser
# =====================================================================================================

def kind_of(code):
    """reference class code (models/query_ref.py) -> Token.kind of /repo (0,1,4,5,...,14): arithmetic only, so a
    symbolic code stays symbolic."""
    return code if code < 2 else code + 2


def text_of(kind, v):
    """the token text for a kind (and variant v in 0..2 where a kind has several spellings)"""
    if kind == Token.Tag:
        if v == 0:
            return "a"
        if v == 1:
            return '"a"'
        return "a*"
    if kind == Token.Wildcard:
        if v == 0:
            return "?"
        if v == 1:
            return "??"
        return "???"
    if kind == Token.And:
        if v == 0:
            return "&&"
        return ","
    if kind == Token.Or:
        return "||"
    if kind == Token.LogicalGroup:
        return "("
    if kind == Token.LogicalGroupEnd:
        return ")"
    if kind == Token.DescendantGroup:
        return "["
    if kind == Token.DescendantGroupEnd:
        return "]"
    if kind == Token.ExactMatch:
        return "{"
    if kind == Token.ExactMatchEnd:
        return "}"
    if kind == Token.ExactMatchOptional:
        return ":"
    if kind == Token.LogicalNegation:
        return "~"
    return "@"


class SymToken(Token):
    """A real Token (its __eq__/__str__ are /repo's) whose `kind` is a symbolic int and whose `text` is looked
    up from the kind only when the parser reads it (by then the path has usually pinned the kind)."""

    def __init__(self, kind, variant):
        self.kind = kind
        self._v = variant
        self._text = None

    @property
    def text(self):
        if self._text is None:
            self._text = text_of(self.kind, self._v)
        return self._text

    @text.setter
    def text(self, value):
        self._text = value


def compile_codes(ks, vs):
    """Run the real QueryHandler._parse on the token list (ks: class codes, vs: spelling variants).  Only the
    regex tokenizer is replaced (per instance) by the given tokens; tokenizer_link ties the two together."""
    toks = [SymToken(kind_of(ks[i]), vs[i]) for i in range(len(ks))]
    qh = QueryHandler.__new__(QueryHandler)
    qh.tokens = []
    qh.at_token = -1
    qh._tokenize = lambda s: toks
    qh.tree = qh._parse("")
    return qh


def query_text(ks, vs):
    """the query string a (ks, vs) counterexample stands for (for reports / public-API reproduction)"""
    return " ".join(text_of(kind_of(ks[i]), vs[i]) for i in range(len(ks)))


def _codes_ok(ks, vs):
    if len(vs) != len(ks):
        return False
    for i in range(len(ks)):
        if not (0 <= ks[i] < Q.NCODES and 0 <= vs[i] <= R.env_int("VP_V", 2)):
            return False
    return True


def _kcell(ks):
    """cell: exact length VP_LEN, class codes of the first tokens VP_K0 / VP_K1"""
    L = R.env_int("VP_LEN")
    if L is not None and len(ks) != L:
        return False
    k0 = R.env_int("VP_K0")
    if k0 is not None and (len(ks) < 1 or ks[0] != k0):
        return False
    k1 = R.env_int("VP_K1")
    if k1 is not None and (len(ks) < 2 or ks[1] != k1):
        return False
    return True


def kcells(n, split1_from=None, split2_from=None, ncodes=Q.NCODES):
    cells = []
    for L in range(0, n + 1):
        if split2_from is not None and L >= max(split2_from, 2):
            cells += [{"VP_LEN": L, "VP_K0": a, "VP_K1": b} for a in range(ncodes) for b in range(ncodes)]
        elif split1_from is not None and L >= max(split1_from, 1):
            cells += [{"VP_LEN": L, "VP_K0": a} for a in range(ncodes)]
        else:
            cells.append({"VP_LEN": L})
    return cells


_OPERAND_START = [Q.TAG, Q.WILD, Q.NEG, Q.LPAR, Q.LBRACK, Q.LBRACE]


def _len5_first_spelling():
    """length-5 lists that begin with a token an operand can begin with, first spelling of every kind"""
    return [{"VP_LEN": 5, "VP_K0": k, "VP_N": 5, "VP_V": 0} for k in _OPERAND_START]


def _kf_closer_as_term(ks):
    """Input class of known finding C15-closer-as-term: the grouping symbols of the query do not balance, yet the
    query is a sentence of the documented grammar once any non-opening token (here: a closing ')' ']' '}') is
    allowed to stand as a term where an operand is required.  E.g. ')', 'a && )', '( ) )', '{ a : ] }'."""
    return Q.in_lenient_grammar(ks) and not Q.balanced(ks)


def parse_total(ks: List[int], vs: List[int]) -> bool:
    """
    pre: len(ks) <= R.N(4)
    pre: _codes_ok(ks, vs)
    pre: _kcell(ks)
    post: _
    """
    try:
        compile_codes(ks, vs)
        compiled = True
    except ValueError:          # the documented parse error; anything else escapes = violation
        compiled = False
    if compiled:
        return True
    return not Q.in_grammar(ks)


def parse_rejects_unbalanced(ks: List[int], vs: List[int]) -> bool:
    """
    pre: len(ks) <= R.N(4)
    pre: _codes_ok(ks, vs)
    pre: _kcell(ks)
    pre: not R.known("C15-closer-as-term", _kf_closer_as_term(ks))
    post: _
    """
    try:
        compile_codes(ks, vs)
    except ValueError:
        return True
    return Q.balanced(ks)


# ---- the regex tokenizer + Token.__init__ agree with the token table used above
TEXTS = [t for t, _c in Q.TEXT_CODE]


def _variant_of(text):
    for v in (0, 1, 2):
        if text_of(kind_of(Q.code_of_text(text)), v) == text:
            return v
    return 0


def tokenizer_link(idx: List[int]) -> bool:
    """
    pre: len(idx) <= R.N(2)
    pre: all(0 <= i < len(TEXTS) for i in idx)
    pre: _kcell(idx)
    post: _
    """
    texts = [TEXTS[i] for i in idx]
    codes = [Q.code_of_text(t) for t in texts]
    text = " ".join(texts)
    toks = QueryHandler._tokenize(text.casefold())
    if [t.text for t in toks] != texts:
        return False
    if [t.kind for t in toks] != [kind_of(c) for c in codes]:
        return False
    try:
        real = str(QueryHandler(text))
    except ValueError:
        real = None
    try:
        mine = str(compile_codes(codes, [_variant_of(t) for t in texts]))
    except ValueError:
        mine = None
    return real == mine


# =====================================================================================================
# Algebra
# =====================================================================================================

# annotation shapes: digits are tag slots
SHAPES = ["0", "0,1", "(0,1)", "(0),1", "(0,1),2", "(0,(1)),2", "((0,1),2)", "(0,1),(2,3)", "(0,(1,2)),3",
          "(0,1),(2,(3,4))", "((0,1),2),(3),4", "0,1,2", "(0,1,2),3"]
# a shape and the same tree with siblings reordered at every level
PERMS = [("0,1", "1,0"), ("(0,1)", "(1,0)"), ("(0),1", "1,(0)"), ("(0,1),2", "2,(1,0)"),
         ("(0,(1)),2", "2,((1),0)"), ("0,1,2", "1,2,0"), ("(0,1),(2,3)", "(3,2),(1,0)"),
         ("(0,(1,2)),3", "3,((2,1),0)"), ("(0,1),2,3", "3,(0,1),2"), ("(0,1),(2,(3,4))", "((4,3),2),(1,0)")]

# sub-queries A, B, C of the laws (each well-formed by the documented grammar); the first NTERM are plain terms
SUBQ = ["a", "b", '"a"', "[b]", "~a", "{a}", "b*", "??", "{a:}", "c", "?", "???", "(a || b)", "(a && b)",
        "{a: b}", "~[a]"]
# (mode, term) of the plain-term sub-queries: 0 bare, 1 quoted, 2 trailing star
TERM_OF = {0: (0, "a"), 1: (0, "b"), 2: (1, "a"), 6: (2, "b"), 9: (0, "c")}
# whole queries for the sibling-permutation law
PERMQ = ["a && b", "a || b", "[a && b]", "{a, b}", "{a: b}", "{a, b:}", "~a && b", "{a && ?}",
         "[a] && b", "{a:}", "{(a || b), ?: ???}", "?? && a", "[ [a] ]", "{a, {b}}", "a && a", "{a || b: ???}"]



def _well_formed(query):
    """import-time guard (concrete): the query compiles and is a sentence of the reference grammar"""
    QueryHandler(query)
    return Q.in_grammar([Q.code_of_text(t.text) for t in QueryHandler._tokenize(query.casefold())])


assert all(_well_formed(q) for q in SUBQ + PERMQ), "a fixed query of the C15 harness is not well-formed"
assert all(_well_formed(f"{a} {op} {b}") for a in SUBQ for b in SUBQ for op in ("&&", "||"))

_PARENT = {"b": "a"}        # the hierarchy of vp/termstub.TREE, restated for the oracle: node b is a child of a


def _tag(c):
    """one-character tag text: printable ASCII except blank and , ( ) / :"""
    if len(c) != 1:
        return False
    o = ord(c)
    if not (32 < o < 127):
        return False
    return not (c == "," or c == "(" or c == ")" or c == "/" or c == ":")


def _tags(xs, shape):
    for ch in shape:
        if ch.isdigit() and not _tag(xs[int(ch)]):
            return False
    return True


def _pin(name, value):
    want = R.env_int(name)
    return want is None or value == want


def build(shape, xs):
    text = ""
    for ch in shape:
        text = text + (xs[int(ch)] if ch.isdigit() else ch)
    return HedString(text, TREE)


def hit(query, h):
    return bool(QueryHandler(query).search(h))


def _path_has(letter, term):
    """oracle: is `term` on the schema path of the one-letter tag `letter` (case-insensitive)?"""
    low = letter.casefold()
    if low == term:
        return True
    hops = 0
    while hops < 8:
        parent = None
        for child, par in _PARENT.items():
            if low == child:
                parent = par
        if parent is None:
            return False
        if parent == term:
            return True
        low = parent
        hops += 1
    return False


def _term_hits(mode, term, letter):
    """oracle for the three term modes of the property text, on a one-letter tag"""
    if mode == 0:
        return _path_has(letter, term)          # bare term: on the tag's schema path
    if mode == 1:
        return letter.casefold() == term        # quoted: only the exact tag
    return letter.casefold().startswith(term)   # trailing star: short-form prefix


def or_law(sh: int, qa: int, qb: int, x0: str, x1: str, x2: str, x3: str, x4: str) -> bool:
    """
    pre: 0 <= sh < len(SHAPES) and _pin("VP_SH", sh)
    pre: 0 <= qa < R.M(6) and 0 <= qb < R.M(6) and _pin("VP_QA", qa) and _pin("VP_QB", qb)
    pre: _tags([x0, x1, x2, x3, x4], SHAPES[sh])
    post: _
    """
    h = build(SHAPES[sh], [x0, x1, x2, x3, x4])
    a, b = SUBQ[qa], SUBQ[qb]
    return hit(f"{a} || {b}", h) == (hit(a, h) or hit(b, h))


def and_laws(sh: int, qa: int, qb: int, x0: str, x1: str, x2: str, x3: str, x4: str) -> bool:
    """
    pre: 0 <= sh < len(SHAPES) and _pin("VP_SH", sh)
    pre: 0 <= qa < R.M(6) and 0 <= qb < R.M(6) and _pin("VP_QA", qa) and _pin("VP_QB", qb)
    pre: _tags([x0, x1, x2, x3, x4], SHAPES[sh])
    post: _
    """
    xs = [x0, x1, x2, x3, x4]
    h = build(SHAPES[sh], xs)
    a, b = SUBQ[qa], SUBQ[qb]
    ab = hit(f"{a} && {b}", h)
    if ab != hit(f"{b} && {a}", h):
        return False                                    # symmetric
    if ab and not (hit(a, h) and hit(b, h)):
        return False                                    # matches only if both do
    if ab and qa in TERM_OF and qb in TERM_OF:          # ... via distinct tags (stated for plain terms)
        ma, ta = TERM_OF[qa]
        mb, tb = TERM_OF[qb]
        slots = [int(ch) for ch in SHAPES[sh] if ch.isdigit()]
        ok = False
        for i in slots:
            for j in slots:
                if i != j and _term_hits(ma, ta, xs[i]) and _term_hits(mb, tb, xs[j]):
                    ok = True
        if not ok:
            return False
    return True


def and_assoc(sh: int, qa: int, qb: int, qc: int, x0: str, x1: str, x2: str, x3: str, x4: str) -> bool:
    """
    pre: 0 <= sh < len(SHAPES) and _pin("VP_SH", sh)
    pre: 0 <= qa < R.M(3) and 0 <= qb < R.M(3) and 0 <= qc < R.M(3) and _pin("VP_QA", qa) and _pin("VP_QB", qb)
    pre: _tags([x0, x1, x2, x3, x4], SHAPES[sh])
    post: _
    """
    h = build(SHAPES[sh], [x0, x1, x2, x3, x4])
    a, b, c = SUBQ[qa], SUBQ[qb], SUBQ[qc]
    return hit(f"({a} && {b}) && {c}", h) == hit(f"{a} && ({b} && {c})", h)


def term_modes(sh: int, qa: int, x0: str, x1: str, x2: str, x3: str, x4: str) -> bool:
    """
    pre: 0 <= sh < len(SHAPES) and _pin("VP_SH", sh)
    pre: qa in TERM_OF and _pin("VP_QA", qa)
    pre: _tags([x0, x1, x2, x3, x4], SHAPES[sh])
    post: _
    """
    xs = [x0, x1, x2, x3, x4]
    h = build(SHAPES[sh], xs)
    mode, term = TERM_OF[qa]
    want = False
    for ch in SHAPES[sh]:
        if ch.isdigit() and _term_hits(mode, term, xs[int(ch)]):
            want = True
    return hit(SUBQ[qa], h) == want


def _tag_ext(t):
    """tag text: a one-character node, or node + "/" + one-character extension or value"""
    if len(t) == 1:
        return _tag(t)
    return len(t) == 3 and t[1] == "/" and _tag(t[0]) and _tag(t[2])


def _term_hits_ext(mode, term, text):
    """oracle on `x` or `x/y`: the extension is not on the schema path (bare), is part of the exact tag (quoted)
    and follows the short form (trailing star)"""
    if mode == 0:
        return _path_has(text[0], term)
    if mode == 1:
        return text.casefold() == term
    return text.casefold().startswith(term)


def term_modes_ext(sh: int, qa: int, x0: str, x1: str, x2: str) -> bool:
    """
    pre: 0 <= sh < len(SHAPES) and _pin("VP_SH", sh)
    pre: qa in TERM_OF and _pin("VP_QA", qa)
    pre: all(_tag_ext(x) for x in [x0, x1, x2])
    post: _
    """
    xs = [x0, x1, x2]
    h = build(SHAPES[sh], xs)
    mode, term = TERM_OF[qa]
    want = False
    for ch in SHAPES[sh]:
        if ch.isdigit() and _term_hits_ext(mode, term, xs[int(ch)]):
            want = True
    return hit(SUBQ[qa], h) == want


def perm_invariant(pm: int, q: int, x0: str, x1: str, x2: str, x3: str, x4: str) -> bool:
    """
    pre: 0 <= pm < len(PERMS) and _pin("VP_PM", pm)
    pre: 0 <= q < R.M(8) and _pin("VP_Q", q)
    pre: _tags([x0, x1, x2, x3, x4], PERMS[pm][0])
    post: _
    """
    xs = [x0, x1, x2, x3, x4]
    return hit(PERMQ[q], build(PERMS[pm][0], xs)) == hit(PERMQ[q], build(PERMS[pm][1], xs))


def _snapshot(group):
    out = []
    for c in group.children:
        if isinstance(c, HedTag):
            out.append((id(c), c.org_tag, c.span))
        else:
            out.append((id(c), _snapshot(c)))
    return out


def search_pure(sh: int, qa: int, x0: str, x1: str, x2: str, x3: str, x4: str) -> bool:
    """
    pre: 0 <= sh < len(SHAPES) and _pin("VP_SH", sh)
    pre: 0 <= qa < R.M(8) and _pin("VP_QA", qa)
    pre: _tags([x0, x1, x2, x3, x4], SHAPES[sh])
    post: _
    """
    h = build(SHAPES[sh], [x0, x1, x2, x3, x4])
    text, snap = str(h), _snapshot(h)
    handler = QueryHandler(SUBQ[qa])
    first = bool(handler.search(h))
    if not (str(h) == text and _snapshot(h) == snap):
        return False                                    # searching never alters the annotation
    second = bool(handler.search(h))
    third = bool(QueryHandler(SUBQ[qa]).search(h))
    return first == second and first == third           # repeated searches agree


# =====================================================================================================
_TP = ["hed.models.query_handler.QueryHandler._parse", "hed.models.query_handler.QueryHandler._handle_or_op",
       "hed.models.query_handler.QueryHandler._handle_and_op", "hed.models.query_handler.QueryHandler._handle_negation",
       "hed.models.query_handler.QueryHandler._handle_grouping_op", "hed.models.query_handler.QueryHandler._next_token_is",
       "hed.models.query_handler.QueryHandler._get_next_token", "hed.models.query_util.Token.__eq__",
       "hed.models.query_expressions.Expression.__init__", "hed.models.query_expressions.Expression.__str__",
       "hed.models.query_expressions.ExpressionExactMatch.__init__"]
_TA = ["hed.models.query_handler.QueryHandler.search", "hed.models.query_expressions.Expression.handle_expr",
       "hed.models.query_expressions.ExpressionAnd.handle_expr", "hed.models.query_expressions.ExpressionAnd.merge_and_groups",
       "hed.models.query_expressions.ExpressionOr.handle_expr", "hed.models.query_expressions.ExpressionNegation.handle_expr",
       "hed.models.query_expressions.ExpressionDescendantGroup.handle_expr",
       "hed.models.query_expressions.ExpressionExactMatch.handle_expr",
       "hed.models.query_expressions.ExpressionWildcardNew.handle_expr",
       "hed.models.query_util.SearchResult.merge_and_result", "hed.models.query_util.SearchResult.has_same_tags",
       "hed.models.hed_group.HedGroup.find_tags_with_term", "hed.models.hed_group.HedGroup.find_exact_tags",
       "hed.models.hed_group.HedGroup.find_wildcard_tags", "hed.models.hed_group.HedGroup.get_all_groups",
       "hed.models.hed_string.HedString.__init__", "hed.models.hed_tag.HedTag.__init__"]



def _cells(dims):
    """dims: list of (env-name, values) -> product cells"""
    return R.product_cells(*[[{name: v} for v in values] for name, values in dims])


def _sq(shapes, m, split_b=False):
    """cells (shape, first sub-query[, second]) with the other sub-queries ranging over SUBQ[:m] inside the cell"""
    dims = [("VP_SH", shapes), ("VP_QA", list(range(m)))] + ([("VP_QB", list(range(m)))] if split_b else [])
    return [dict(c, VP_M=m) for c in _cells(dims)]


_STUB = ["term-stub schema vp/termstub.TREE: every one-character tag is a node whose entry carries only "
         "short/long name and tag_terms (node b is a child of node a, all others are roots)",
         "HedString.split_into_groups is recompiled from /repo source with `is` on characters replaced by `==` "
         "(CPython-equivalent; CrossHair proxies have no identity)",
         "chx: ASCII-exact casefold model; tag characters are printable ASCII except blank , ( ) / :"]
_TOK = ["the regex tokenizer QueryHandler._tokenize is replaced per instance by a token list of real Token "
        "subclass objects (symbolic kind, text looked up from the kind); tokenizer_link checks that the real "
        "tokenizer + Token.__init__ produce exactly these kinds/texts and the same parse verdict"]
_SHAPES_TXT = "annotation shapes %s (digits = one-character tags, each any printable ASCII character except blank , ( ) / :)"

HARNESSES = [
    R.H("parse_total", _TP,
        quick=R.tier(cells=kcells(3, split1_from=3), env={"VP_N": 3}, timeout=300,
                     bound="every token-kind list of length <= 3 over the 13 token kinds, every spelling variant"),
        thorough=R.tier(cells=kcells(4, split1_from=3) + _len5_first_spelling(), env={"VP_N": 4},
                        timeout=1800, path_timeout=30,
                        bound="every token-kind list of length <= 4 over the 13 token kinds, every spelling variant; "
                              "length 5 beginning with a term, wildcard, ~ or opening symbol, with the first "
                              "spelling of each kind (a, ?, &&)"),
        what="the real parser raises nothing but ValueError, and every sentence of the documented grammar compiles",
        oracle="models/query_ref.py in_grammar (recursive-descent recogniser written from the QueryHandler docstring)",
        stubs=_TOK, outside="queries longer than the bound; term spellings other than a, \"a\", a*"),
    R.H("parse_rejects_unbalanced", _TP,
        quick=R.tier(cells=kcells(3, split1_from=3) + [{"VP_LEN": 4, "VP_K0": Q.LBRACE, "VP_K1": Q.TAG, "VP_N": 4},
                                                       {"VP_LEN": 4, "VP_K0": Q.LBRACK, "VP_K1": Q.LBRACE, "VP_N": 4}],
                     env={"VP_N": 3}, timeout=300,
                     bound="every token-kind list of length <= 3 over the 13 token kinds, every spelling variant; plus "
                           "the length-4 lists beginning '{ term' and '[ {' (exact groups with an optional part)"),
        thorough=R.tier(cells=kcells(4, split1_from=3), env={"VP_N": 4}, timeout=900, path_timeout=30,
                        bound="every token-kind list of length <= 4 over the 13 token kinds, every spelling variant"),
        what="a query whose ( [ { ) ] } do not balance is rejected with ValueError",
        oracle="models/query_ref.py balanced (stack bracket matcher)",
        stubs=_TOK, outside="queries longer than the bound"),
    R.H("tokenizer_link", _TP + ["hed.models.query_handler.QueryHandler._tokenize", "hed.models.query_util.Token.__init__",
                                 "hed.models.query_handler.QueryHandler.__init__"],
        quick=R.tier(cells=kcells(2), env={"VP_N": 2}, timeout=300,
                     bound="blank-joined queries of <= 2 tokens from the 18 token texts (indices enumerated by the solver)"),
        thorough=R.tier(cells=kcells(3, split1_from=3, ncodes=len(TEXTS)), env={"VP_N": 3}, timeout=300,
                        bound="blank-joined queries of <= 3 tokens from the 18 token texts (indices enumerated by the solver)"),
        what="QueryHandler(text) through the real regex tokenizer yields the tabled token kinds/texts and the same "
             "accept/reject verdict and expression tree text as the token-list entry used by the parser harnesses",
        oracle="second run of the real parser on the token list", outside="token texts outside the table"),
    R.H("or_law", _TA,
        quick=R.tier(cells=_sq([5], 5), timeout=300,
                     bound=_SHAPES_TXT % "(0,(1)),2" + "; A, B from the first 5 sub-queries of SUBQ (enumerated by the solver)"),
        thorough=R.tier(cells=_sq([4, 5], 6) + _sq([2, 6], 4) + _sq([7], 3, True) + _sq([9], 2, True), timeout=900,
                        path_timeout=30,
                        bound="shapes (0,1),2 and (0,(1)),2 x first 6 sub-queries; (0,1) and ((0,1),2) x first 4; "
                              "(0,1),(2,3) x first 3; (0,1),(2,(3,4)) x first 2"),
        what="'A || B' matches iff A matches or B matches", oracle="three runs of the real search on the same annotation",
        stubs=_STUB, outside="other shapes / sub-queries; multi-character tags, values, extensions; the bundled schemas"),
    R.H("and_laws", _TA,
        quick=R.tier(cells=_sq([4, 5], 4), timeout=300,
                     bound=_SHAPES_TXT % "(0,1),2 and (0,(1)),2" + "; A, B from the first 4 sub-queries of SUBQ"),
        thorough=R.tier(cells=_sq([4, 5], 6) + _sq([2, 6], 4) + _sq([7], 3, True) + _sq([9], 2, True), timeout=900,
                        path_timeout=30,
                        bound="shapes (0,1),2 and (0,(1)),2 x first 6 sub-queries; (0,1) and ((0,1),2) x first 4; "
                              "(0,1),(2,3) x first 3; (0,1),(2,(3,4)) x first 2"),
        what="'A && B' == 'B && A'; it matches only if A and B both match; for plain terms only if two DISTINCT "
             "tags carry them",
        oracle="runs of the real search on the same annotation; distinct-tag witness computed from the tag letters",
        stubs=_STUB, outside="other shapes / sub-queries; multi-character tags; the bundled schemas"),
    R.H("and_assoc", _TA,
        quick=R.tier(cells=_sq([4], 3, True) + _sq([11], 3, True), timeout=300,
                     bound=_SHAPES_TXT % "(0,1),2 and 0,1,2 (three siblings)" + "; A, B, C from the first 3 sub-queries of "
                           "SUBQ, repeats allowed"),
        thorough=R.tier(cells=_sq([4, 11], 4, True) + _sq([5, 12], 3, True) + _sq([6, 7], 2, True), timeout=900,
                        path_timeout=30,
                        bound="(0,1),2 and 0,1,2 x first 4 sub-queries; (0,(1)),2 and (0,1,2),3 x first 3; ((0,1),2) and "
                              "(0,1),(2,3) x first 2"),
        what="'(A && B) && C' and 'A && (B && C)' give the same verdict",
        oracle="two runs of the real search", stubs=_STUB, outside="other shapes / sub-queries"),
    R.H("term_modes", _TA,
        quick=R.tier(cells=_cells([("VP_SH", [2, 4, 5])]), timeout=300,
                     bound=_SHAPES_TXT % "(0,1), (0,1),2, (0,(1)),2" + "; terms a, b, \"a\", b*, c"),
        thorough=R.tier(cells=_cells([("VP_SH", [0, 1, 2, 3, 4, 5, 6, 7, 8])]) +
                        _cells([("VP_SH", [9, 10]), ("VP_QA", [0, 1, 2, 6])]), timeout=900, path_timeout=30,
                        bound="all shapes up to 4 tags x 5 terms; 5-tag shapes x 4 terms"),
        what="a bare term matches iff some tag has it on its schema path, a quoted term iff some tag is exactly it, "
             "a trailing-star term iff some tag's short form starts with it (case-insensitively)",
        oracle="inline reference over the tag letters and the stub's parent table", stubs=_STUB,
        outside="multi-character tags, values, extensions; the bundled schemas"),
    R.H("term_modes_ext", _TA + ["hed.models.hed_tag.HedTag._calculate_to_canonical_forms"],
        quick=R.tier(cells=_cells([("VP_SH", [1, 2]), ("VP_QA", [0, 1, 2, 6, 9])]), timeout=300,
                     bound="shapes 0,1 and (0,1); every tag either a one-character node or node/x with a "
                           "one-character extension or value x; terms a, b, \"a\", b*, c"),
        thorough=R.tier(cells=_cells([("VP_SH", [0, 1, 2, 3, 4, 5, 11]), ("VP_QA", [0, 1, 2, 6, 9])]), timeout=900,
                        path_timeout=30, bound="all shapes up to 3 tags, same tag texts and terms"),
        what="a bare term never matches through a tag's extension or value (only through its schema path); a quoted "
             "term needs the whole tag including the extension; a trailing-star term matches the short form with "
             "the extension appended",
        oracle="inline reference (_term_hits_ext) over the tag text and the stub's parent table",
        stubs=_STUB + ["term stub returns (entry of x, remainder '/y') for a tag text x/y"],
        outside="extensions longer than one character; values with units; the bundled schemas"),
    R.H("perm_invariant", _TA,
        quick=R.tier(cells=[dict(c, VP_M=6) for c in _cells([("VP_PM", [3, 4]), ("VP_Q", list(range(6)))])],
                     timeout=300,
                     bound="trees (0,1),2 and (0,(1)),2 vs. the same trees with every sibling list reversed; first 6 queries of PERMQ"),
        thorough=R.tier(cells=[dict(c, VP_M=16) for c in _cells([("VP_PM", [0, 1, 2, 3, 4, 5])])] +
                        [dict(c, VP_M=6) for c in _cells([("VP_PM", [6, 7, 8]), ("VP_Q", list(range(6)))])] +
                        [dict(c, VP_M=4) for c in _cells([("VP_PM", [9]), ("VP_Q", list(range(4)))])],
                        timeout=1500, path_timeout=30,
                        bound="the 2- and 3-tag PERMS pairs x all 16 queries; the 4-tag pairs x first 6; the 5-tag pair x first 4"),
        what="the match verdict is the same on an annotation and on the annotation with its siblings reordered",
        oracle="two runs of the real search", stubs=_STUB, outside="other permutations / queries"),
    R.H("search_pure", _TA,
        quick=R.tier(cells=_sq([4, 5], 8), timeout=300,
                     bound=_SHAPES_TXT % "(0,1),2 and (0,(1)),2" + "; first 8 sub-queries of SUBQ"),
        thorough=R.tier(cells=[dict(c, VP_M=16) for c in _cells([("VP_SH", [2, 4, 5, 6])])] + _sq([7, 8], 16) + _sq([9], 4),
                        timeout=900, path_timeout=30,
                        bound="shapes with 2-4 tags x all 16 sub-queries; (0,1),(2,(3,4)) x first 4"),
        what="searching leaves str(annotation) and the tree (object identities, texts, spans) unchanged; a second "
             "search with the same handler and a search with a freshly compiled handler give the same verdict",
        oracle="before/after comparison on the same objects", stubs=_STUB, outside="other shapes / queries"),
]
