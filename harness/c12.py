"""C12 — every reported issue is well-formed and points at the offending text.

Real code under symbolic execution: the `hed_tag_error` wrappers of hed.errors.error_reporter (both the
has_sub_tag and the whole-tag form) with the message functions of hed.errors.error_messages,
ErrorHandler.format_error / format_error_with_context / format_error_from_context / add_context_and_filter /
_add_context_to_errors / _create_error_object / _get_tag_span_to_error_object / _update_error_with_char_pos /
filter_issues_by_severity, HedString._get_org_span / _get_org_span_from_strings / from_hed_strings,
HedGroup.check_if_in_original, HedValidator.validate (decoration call path), sort_issues, replace_tag_references.
Tags, groups and strings are real HedTag/HedGroup/HedString objects parsed from symbolic text on the NoSchema stub.
Reference: models/issues_ref.py.
"""
from typing import List
from vp import reg as R
from hed.validator.util.char_util import CharValidator
from vp import astpatch
from vp.stubs import NOSCHEMA
from models import issues_ref as M
from hed.models.hed_string import HedString
from hed.models.hed_tag import HedTag
from hed.models.hed_group import HedGroup
from hed.errors.error_reporter import ErrorHandler, sort_issues, replace_tag_references
from hed.errors.error_types import ErrorContext
from hed.validator.hed_validator import HedValidator

astpatch.is_to_eq(HedString, "split_into_groups")   # `is '('` -> `== '('` (see vp/astpatch.py, as in C02)

_HARDWIRE_KNOWN = False      # while developing: exclusions active without known_findings.json


def _known(fid, verdict):
    if _HARDWIRE_KNOWN:
        return bool(verdict)
    return R.known(fid, verdict)


def _handler(h, warn=True):
    eh = ErrorHandler(check_for_warnings=warn)
    eh.push_error_context(ErrorContext.HED_STRING, h)
    return eh


# ------------------------------------------------------------------ 1. offsets of fragment-quoting issues
_REP = 7      # index in M.SUBTAG of the wrapper used by subtag_offsets (NODE_NAME_EMPTY; all has_sub_tag wrappers
#               share one wrapper body, the eight message functions are covered by subtag_messages)


def _subtag_ok(s, h, tag, i, j, entry):
    """one fragment-quoting issue on `tag` (indices i..j relative to the tag, j < 0 = "to the end of the tag"),
    decorated once by a handler that holds h: offsets inside s and the tag, select the quoted fragment"""
    a, b = tag.span
    typ, code, sev, xkw, parts = entry
    kw = {}
    if xkw:
        kw[xkw] = "xv"
    issues = ErrorHandler.format_error(typ, tag, i, None if j < 0 else j, **kw)
    _handler(h).add_context_and_filter(issues)
    if len(issues) != 1:
        return False
    iss = issues[0]
    if not M.well_formed(iss) or iss["code"] != code or iss["severity"] != sev:
        return False
    if iss.get("source_tag") is not tag:
        return False
    if "char_index" not in iss or "char_index_end" not in iss:
        return False
    if not M.offsets_ok(iss, len(s), (a, b)):
        return False
    ci, ce = iss["char_index"], iss["char_index_end"]
    # the fragment the caller pointed at (tag-relative i..j) is the one located
    if ci != a + i or ce != (b if j < 0 else a + j):
        return False
    # the message quotes exactly s[ci:ce] (and the tag as written), and carries the location once
    want = M.render(parts, s[a:b], s[ci:ce], "xv") + M.suffix(ci, ce)
    return iss["message"] == want


def subtag_offsets(s: str, i: int, j: int) -> bool:
    """
    pre: len(s) <= R.N(3)
    pre: R.scell(s)
    pre: 0 <= i <= R.N(3) and -1 <= j <= R.N(3)
    post: _
    """
    h = HedString(s, NOSCHEMA)
    for tag in h.get_all_tags():
        a, b = tag.span
        if i <= b - a and (j < 0 or i <= j <= b - a):      # documented precondition: indices within the tag
            if not _subtag_ok(s, h, tag, i, j, M.SUBTAG[_REP]):
                return False
    return True


def _one_tag_text(t):
    """t is the text of exactly one tag: no delimiter, no blank at either end"""
    if len(t) == 0 or t[0] == " " or t[len(t) - 1] == " ":
        return False
    for c in t:
        if c == "," or c == "(" or c == ")":
            return False
    return True


def _word(t):
    """t is a non-empty run of lower-case ASCII letters (one tag; used where the text's shape is not the subject)"""
    if len(t) == 0:
        return False
    for c in t:
        if not (97 <= ord(c) <= 122):      # ord(): one branch; `"a" <= c` on a symbolic character forks three ways
            return False
    return True


_ICO_CLASSES = ["$", "#", "/", "-"]      # partition classes of the leading characters (+ "other")


_ICO_ALPHA = [36, 35, 47, 45, 95, 97, 90, 57, 123, 46, 126, 32, 64, 43]     # $ # / - _ a Z 9 { . ~ blank @ +


def _ico_alpha(t):
    """every character of t is one of 14 representatives: letter (both cases), digit, the allowed - _ /, the
    placeholder #, forbidden punctuation $ { . ~ @ +, blank (ord() equalities: one z3 disjunction per character)"""
    for c in t:
        o = ord(c)
        if not (o == 36 or o == 35 or o == 47 or o == 45 or o == 95 or o == 97 or o == 90 or o == 57 or o == 123
                or o == 46 or o == 126 or o == 32 or o == 64 or o == 43):
            return False
    return True


def invalid_char_offsets(t: str, allow: bool) -> bool:
    """
    pre: 1 <= len(t) <= R.N(3)
    pre: _one_tag_text(t)
    pre: _ico_alpha(t)
    pre: R.scell(t, _ICO_CLASSES)
    post: _
    """
    s = "(" + t + ")"
    h = HedString(s, NOSCHEMA)
    tags = h.get_all_tags()
    if len(tags) != 1 or tags[0].span != (1, 1 + len(t)):
        return False
    tag = tags[0]
    issues = CharValidator(modern_allowed_char_rules=True).check_tag_invalid_chars(tag, allow)
    _handler(h).add_context_and_filter(issues)
    typ, code, sev, xkw, parts = M.SUBTAG[1]
    n = 0
    for k in range(len(t)):
        o = ord(t[k])
        ok = 48 <= o <= 57 or 65 <= o <= 90 or 97 <= o <= 122 or o == 45 or o == 95 or o == 47 or (allow and o == 35)
        if ok:
            continue
        # the k-th character is not allowed in a tag name: the next issue points at exactly it
        if n >= len(issues):
            return False
        iss = issues[n]
        n += 1
        if not M.well_formed(iss) or iss["code"] != code or iss["severity"] != sev:
            return False
        if iss.get("char_index") != 1 + k or iss.get("char_index_end") != 2 + k:
            return False
    return n == len(issues)


def subtag_messages(t: str, i: int, j: int) -> bool:
    """
    pre: 1 <= len(t) <= R.N(2)
    pre: _one_tag_text(t)
    pre: R.env_int("VP_LEN") is None or len(t) == R.env_int("VP_LEN")
    pre: 0 <= i <= len(t) and (j == -1 or i <= j <= len(t))
    post: _
    """
    s = "(" + t + ")"
    h = HedString(s, NOSCHEMA)
    tags = h.get_all_tags()
    if len(tags) != 1 or tags[0].span != (1, 1 + len(t)):
        return False
    k = R.env_int("VP_K")
    for n, entry in enumerate(M.SUBTAG):
        if k is None or k == n:
            if not _subtag_ok(s, h, tags[0], i, j, entry):
                return False
    return True


# ------------------------------------------------------------------ 2. whole-tag / group issues, combined strings
def _whole_ok(text, ctx, item, entry, span=None):
    typ, code, sev, parts = entry
    eh = _handler(ctx)
    issues = eh.format_error_with_context(typ, item)
    if len(issues) != 1:
        return False
    iss = issues[0]
    if not M.well_formed(iss) or iss["code"] != code or iss["severity"] != sev:
        return False
    if "char_index" not in iss or "char_index_end" not in iss:
        return False
    ci, ce = iss["char_index"], iss["char_index_end"]
    if not (0 <= ci <= ce <= len(text)):
        return False
    if span is not None and (ci != span[0] or ce != span[1]):     # exactly the named item's span
        return False
    quoted = item.org_tag if isinstance(item, HedTag) else item.get_original_hed_string()
    if text[ci:ce] != quoted:
        return False
    want = M.render(parts, text[ci:ce], "") + M.suffix(ci, ce)
    return iss["message"] == want


def _empty_groups(h):
    return [g for g in h.get_all_groups() if g.is_group and len(g.children) == 0]


def whole_tag_offsets(s: str) -> bool:
    """
    pre: len(s) <= R.N(3)
    pre: R.scell(s)
    post: _
    """
    h = HedString(s, NOSCHEMA)
    k = R.env_int("VP_K", 2)
    for tag in h.get_all_tags():
        a, b = tag.span
        if not (0 <= a <= b <= len(s)) or not _whole_ok(s, h, tag, M.WHOLE[k], (a, b)):
            return False
    for g in _empty_groups(h):                               # the only groups the validator names in an issue
        if not _whole_ok(s, h, g, M.WHOLE[0], g.span):
            return False
    return True


def combined_offsets(s1: str, s2: str) -> bool:
    """
    pre: len(s1) <= R.N(2) and len(s2) <= R.M(1)
    pre: R.env_int("VP_L1") is None or len(s1) == R.env_int("VP_L1")
    pre: R.env_int("VP_L2") is None or len(s2) == R.env_int("VP_L2")
    pre: R.scell(s1)
    post: _
    """
    texts = ["q", s1, s2]
    cells = [HedString(x, NOSCHEMA) for x in texts]
    row = HedString.from_hed_strings(cells)         # as the table validator does for the cells of one row
    text = row.get_original_hed_string()
    if text != "q," + s1 + "," + s2:
        return False
    start = 0
    for n in range(3):
        for tag in cells[n].get_all_tags():
            a, b = tag.span
            issues = _handler(row).format_error_with_context("HED_TAG_REPEATED", tag)
            if len(issues) != 1 or not M.well_formed(issues[0]):
                return False
            ci, ce = issues[0].get("char_index"), issues[0].get("char_index_end")
            if ci != start + a or ce != start + b:      # the tag's span in the combined text
                return False
            if not (0 <= ci <= ce <= len(text)) or text[ci:ce] != texts[n][a:b]:
                return False
            want = M.render(M.WHOLE[2][3], texts[n][a:b], "") + M.suffix(ci, ce)
            if issues[0]["message"] != want:
                return False
        start += len(texts[n]) + 1
    return True


# ------------------------------------------------------------------ 3. decoration passes: location suffix once
# issue kinds: 0 fragment-quoting issue on a tag of the string, 1 whole-tag issue on a tag of the string,
#              2 issue without a tag (hed_error), 3 whole-tag issue on a tag that is not part of the string
_LOCATED = (0, 1)
_FOREIGN = HedString("zz", NOSCHEMA).children[0]


def _make_args(kind, tag, i, j):
    if kind == 0:
        return ("NODE_NAME_EMPTY", tag, i, j)
    if kind == 1:
        return ("TAG_REQUIRES_CHILD", tag)
    if kind == 2:
        return ("COMMA_MISSING", "x")
    return ("TAG_REQUIRES_CHILD", _FOREIGN)


def _base_message(kind, tag_text, fragment):
    if kind == 0:
        return M.render(M.SUBTAG[_REP][4], tag_text, fragment)
    if kind == 1:
        return M.render(M.WHOLE[3][3], tag_text, "")
    if kind == 2:
        return M.render(M.PLAIN[0][3], "", "", "x")
    return M.render(M.WHOLE[3][3], "zz", "")


def _kf_redecorated(kind, passes):
    """Input class of known finding C12-suffix-repeated: an issue that names a tag of the string held by the
    handler (so it gets character offsets) goes through context decoration more than once."""
    return kind in _LOCATED and passes >= 2


def _place(t):
    """the validated text and the index of the tag under test among its children: the tag stands at character 0
    in the VP_LEAD=0 cells ("<t>, y") and behind another tag otherwise ("y, <t>")"""
    if R.env_int("VP_LEAD", 1) == 0:
        return t + ", y", 0
    return "y, " + t, 1


def decorate_once(t: str, i: int, j: int, kind: int, sev: int, warn: bool, passes: int, route: int,
                  row: int) -> bool:
    """
    pre: 1 <= len(t) <= R.N(2)
    pre: _word(t)
    pre: 0 <= i <= j <= len(t)
    pre: 0 <= kind <= 3 and sev in (1, 10) and 1 <= passes <= 2 and 0 <= route <= 2
    pre: R.env_int("VP_KIND") is None or kind == R.env_int("VP_KIND")
    pre: R.env_int("VP_ROUTE") is None or route == R.env_int("VP_ROUTE")
    pre: not _known("C12-suffix-repeated", _kf_redecorated(kind, passes))
    post: _
    """
    s, k = _place(t)
    h = HedString(s, NOSCHEMA)
    tag = h.children[k]
    a, b = tag.span
    eh = ErrorHandler(check_for_warnings=warn)
    eh.push_error_context(ErrorContext.ROW, row)
    eh.push_error_context(ErrorContext.HED_STRING, h)
    args = _make_args(kind, tag, i, j)
    if route == 0:
        issues = ErrorHandler.format_error(*args, severity=sev)
        done = 0
    elif route == 1:
        issues = eh.format_error_with_context(*args, severity=sev)
        done = 1
    else:                                           # documented: this route cannot drop warnings itself
        issues = ErrorHandler.format_error_from_context(args[0], eh.error_context, *args[1:], severity=sev)
        done = 1
    while done < passes:
        eh.add_context_and_filter(issues)
        done += 1
    filtered = (not warn) and sev == M.WARNING and not (route == 2 and passes == 1)
    if filtered:                                    # errors only: a warning is dropped ...
        return issues == []
    if len(issues) != 1:                            # ... and nothing else is
        return False
    iss = issues[0]
    if not M.well_formed(iss) or iss["severity"] != sev:
        return False
    if iss.get(M.K_ROW) != row or iss.get(M.K_STR) is not h:
        return False
    located = kind in _LOCATED
    if located != ("char_index" in iss) or located != ("char_index_end" in iss):
        return False
    if not located:
        return iss["message"] == M.expected_message(_base_message(kind, "", ""), False)
    ci, ce = iss["char_index"], iss["char_index_end"]
    if not M.offsets_ok(iss, len(s), (a, b)):
        return False
    if kind == 0:
        if ci != a + i or ce != a + j:
            return False
    elif ci != a or ce != b:
        return False
    # base text + the location suffix exactly once (models/issues_ref.py explains why equality says "once")
    return iss["message"] == M.expected_message(_base_message(kind, s[a:b], s[ci:ce]), True, ci, ce)


# ------------------------------------------------------------------ 4. the call path that decorates: validate()
class _Staged(HedValidator):
    """The real HedValidator.validate with its two check stages returning prepared issue lists (the whole
    validator on symbolic text is out of reach; what is decided here is validate's own sequencing of
    add_context_and_filter over whatever its stages return)."""

    def __init__(self, basic, full):
        self._basic = basic
        self._full = full

    def run_basic_checks(self, hed_string, allow_placeholders):
        return list(self._basic)

    def run_full_string_checks(self, hed_string):
        return list(self._full)


# stage slot: 0 nothing, 1 located warning, 2 located error, 3 tag-less warning, 4 tag-less error
def _slot(sl, tag, n):
    if sl == 1:
        return ErrorHandler.format_error("TAG_EXTENDED", tag, 0, n)
    if sl == 2:
        return ErrorHandler.format_error("NODE_NAME_EMPTY", tag, 0, n)
    if sl == 3:
        return ErrorHandler.format_error("SIDECAR_KEY_MISSING", "k", "v")
    if sl == 4:
        return ErrorHandler.format_error("COMMA_MISSING", "x")
    return []


def _labelled(sl, tag, n):
    out = _slot(sl, tag, n)
    for x in out:
        x["slot"] = sl          # harness bookkeeping: which kind of issue this is
    return out


def _slot_base(sl, tag_text):
    if sl == 1:
        return M.render(M.SUBTAG[0][4], tag_text, tag_text)
    if sl == 2:
        return M.render(M.SUBTAG[_REP][4], tag_text, tag_text)
    if sl == 3:
        return M.render(M.PLAIN[1][3], "", "", "k", "v")
    return M.render(M.PLAIN[0][3], "", "", "x")


def _run_validate(t, b0, b1, f0, warn, ctx):
    s, k = _place(t)
    h = HedString(s, NOSCHEMA)
    tag = h.children[k]
    basic = _labelled(b0, tag, len(t)) + _labelled(b1, tag, len(t))
    full = _labelled(f0, tag, len(t))
    eh = ErrorHandler(check_for_warnings=warn)
    if ctx:
        eh.push_error_context(ErrorContext.HED_STRING, h)
    return s, tag, _Staged(basic, full).validate(h, allow_placeholders=False, error_handler=eh)


def _kf_validate_twice(b0, b1, warn, ctx):
    """Input class of known finding C12-suffix-repeated seen through HedValidator.validate: the handler holds the
    string, warnings are kept, the basic checks report a located warning and no error (so validate goes on to the
    full-string stage and decorates the accumulated list a second time)."""
    return ctx and warn and (b0 == 1 or b1 == 1) and b0 not in (2, 4) and b1 not in (2, 4)


def validate_decorates_once(t: str, b0: int, b1: int, f0: int, warn: bool, ctx: bool) -> bool:
    """
    pre: 1 <= len(t) <= R.N(1)
    pre: _word(t)
    pre: 0 <= b0 <= 4 and 0 <= b1 <= 4 and 0 <= f0 <= 4
    pre: R.env_int("VP_B0") is None or b0 == R.env_int("VP_B0")
    pre: not _known("C12-suffix-repeated", _kf_validate_twice(b0, b1, warn, ctx))
    post: _
    """
    s, tag, both = _run_validate(t, b0, b1, f0, True, ctx)
    _s, _t, errs = _run_validate(t, b0, b1, f0, False, ctx)
    a, b = tag.span
    for iss in (both if warn else errs):
        if not M.well_formed(iss):
            return False
        if not warn and iss["severity"] != M.ERROR:
            return False
        located = ctx and "source_tag" in iss
        if located != ("char_index" in iss) or located != ("char_index_end" in iss):
            return False
        ci, ce = iss.get("char_index", 0), iss.get("char_index_end", 0)
        if located and (ci != a or ce != b or not M.offsets_ok(iss, len(s), (a, b))):
            return False
        if iss["message"] != M.expected_message(_slot_base(iss["slot"], s[a:b]), located, ci, ce):
            return False
    # errors only == the error-severity part of what comes back with warnings on, same order
    want = M.error_subset(both)
    if len(errs) != len(want):
        return False
    for x, y in zip(errs, want):
        if x["code"] != y["code"] or x["severity"] != y["severity"] or x["slot"] != y["slot"]:
            return False
        if x.get("char_index") != y.get("char_index") or x.get("char_index_end") != y.get("char_index_end"):
            return False
    return True


# ------------------------------------------------------------------ 5. errors only, sorting
def errors_only_subset(sevs: List[int]) -> bool:
    """
    pre: len(sevs) <= R.N(3)
    pre: all(v == 1 or v == 10 for v in sevs)
    post: _
    """
    issues = []
    for n, v in enumerate(sevs):
        issues += ErrorHandler.format_error("COMMA_MISSING", "t", severity=v)
        issues[n]["id"] = n
    with_warnings = list(issues)
    ErrorHandler(check_for_warnings=True).add_context_and_filter(with_warnings)
    if not M.same_objects(with_warnings, issues):
        return False
    errors_only = list(issues)
    ErrorHandler(check_for_warnings=False).add_context_and_filter(errors_only)
    if not M.same_objects(errors_only, M.error_subset(with_warnings)):
        return False
    if not M.same_objects(ErrorHandler.filter_issues_by_severity(issues, M.ERROR), M.error_subset(issues)):
        return False
    for v in sevs:                                  # single-issue route
        got = ErrorHandler(check_for_warnings=False).format_error_with_context("COMMA_MISSING", "t", severity=v)
        if (len(got) == 1) != (v == M.ERROR):
            return False
    return True


def _issue(n, f, c, k, r, g):
    """issue number n; g is a bit mask saying which of file / sidecar column / sidecar key / row are present"""
    d = {"code": "X", "message": "m", "severity": 1, "id": n}
    if g & 1:
        d[M.K_FILE] = f
    if g & 2:
        d[M.K_COL] = c
    if g & 4:
        d[M.K_KEY] = k
    if g & 8:
        d[M.K_ROW] = r
    return d


def _short(*xs):
    for x in xs:
        if len(x) > R.M(1):
            return False
    return True


_REAL_MASKS = (0, 1, 3, 7, 9)    # string validation; file; file+column; file+column+key (sidecar); file+row (table)


def _masks(n, g0, g1, g2):
    """presence patterns (bit 1 file, 2 sidecar column, 4 sidecar key, 8 row) allowed in this tier/cell.
    VP_MASKS=1: every pattern of a pair, otherwise the five patterns the validators produce; three issues: VP_KEY
    (0 none, 1 file, 2 column, 4 key) names the one name all three carry, the row is optional for each.
    VP_G0 pins g0 (the cell)."""
    q = R.env_int("VP_G0")
    if q is not None and n >= 1 and g0 != q:
        return False
    if n == 3:
        k = R.env_int("VP_KEY", 0)
        for g in (g0, g1, g2):
            if g != k and g != k + 8:
                return False
    elif not R.env_int("VP_MASKS"):
        for g in (g0, g1)[:n]:
            if g not in _REAL_MASKS:
                return False
    return True


def sort_stable(n: int, f0: str, c0: str, k0: str, r0: int, g0: int, f1: str, c1: str, k1: str, r1: int, g1: int,
                f2: str, c2: str, k2: str, r2: int, g2: int) -> bool:
    """
    pre: 0 <= n <= R.N(3) and n <= 3
    pre: R.env_int("VP_LEN") is None or n == R.env_int("VP_LEN")
    pre: 0 <= g0 <= 15 and 0 <= g1 <= 15 and 0 <= g2 <= 15
    pre: _masks(n, g0, g1, g2)
    pre: _short(f0, c0, k0, f1, c1, k1, f2, c2, k2)
    pre: r0 >= 0 and r1 >= 0 and r2 >= 0
    post: _
    """
    issues = []
    if n >= 1:
        issues.append(_issue(0, f0, c0, k0, r0, g0))
    if n >= 2:
        issues.append(_issue(1, f1, c1, k1, r1, g1))
    if n >= 3:
        issues.append(_issue(2, f2, c2, k2, r2, g2))
    before = list(issues)
    out = sort_issues(issues)
    if not M.same_objects(issues, before):          # the input list is left as it was
        return False
    if not M.is_stable_sorted_permutation(before, out):
        return False
    back = sort_issues(issues, reverse=True)
    if len(back) != len(before):
        return False
    for x, y in zip(back, back[1:]):                # descending on request
        if M.key_less(M.sort_key(x), M.sort_key(y)):
            return False
    return True


def sort_numbered_columns(r0: int, r1: int, r2: int, c0: int, c1: int, has: int, n: int) -> bool:
    """
    pre: 2 <= n <= 3
    pre: 0 <= r0 <= 3 and 0 <= r1 <= 3 and 0 <= r2 <= 3
    pre: 0 <= c0 <= 3 and 0 <= c1 <= 3
    pre: 0 <= has <= 3
    post: _
    """
    # a spreadsheet without a header line labels its columns with NUMBERS; row-level issues carry no column at
    # all.  Sorting such a list must not raise and must still order by row (stable otherwise).
    from hed.errors.error_types import ErrorContext as EC
    issues = []
    rows = [r0, r1, r2][:n]
    cols = [c0, c1, 0][:n]
    for i in range(n):
        d = {"code": "X", "message": "m%d" % i, "severity": 1, EC.FILE_NAME: "f", EC.ROW: rows[i]}
        if i < 2 and (has >> i) & 1:
            d[EC.COLUMN] = cols[i]
        issues.append(d)
    out = sort_issues(issues)
    if len(out) != n:
        return False
    for d in issues:
        if not M.same_objects([x for x in out if x is d], [d]):
            return False
    for x, y in zip(out, out[1:]):
        if x[EC.ROW] > y[EC.ROW]:
            return False
        if x[EC.ROW] == y[EC.ROW] and EC.COLUMN not in x and EC.COLUMN not in y:
            if issues.index(x) > issues.index(y):
                return False                 # stable among issues with equal keys
    return True


# ------------------------------------------------------------------ 6. export
def export_json_safe(t: str, kind: int, row: int, passes: int, nest: int) -> bool:
    """
    pre: 1 <= len(t) <= R.N(2)
    pre: _word(t)
    pre: 0 <= kind <= 3 and 1 <= passes <= 2 and 0 <= nest <= 2
    post: _
    """
    s = "y, " + t
    h = HedString(s, NOSCHEMA)
    tag = h.children[1]
    eh = ErrorHandler()
    eh.push_error_context(ErrorContext.FILE_NAME, "f")
    eh.push_error_context(ErrorContext.ROW, row)
    eh.push_error_context(ErrorContext.HED_STRING, h)
    issues = []
    for k in range(kind + 1):                       # one issue of each kind 0..kind
        issues += ErrorHandler.format_error(*_make_args(k, tag, 0, len(t)))
    issues += ErrorHandler.format_error("HED_GROUP_EMPTY", HedGroup("()", 0, 2))
    eh.add_context_and_filter(issues)
    codes = [x["code"] for x in issues]
    sevs = [x["severity"] for x in issues]
    if nest >= 1:                                   # values that are containers of tag references
        issues[0]["tag_list"] = [tag, [h, None], {"g": tag}]
    if nest >= 2:
        issues[0]["more"] = {"k": [tag, 1.5, True], "n": None}
    target = issues
    if nest == 2:
        target = {"issues": issues}
    for _ in range(passes):
        replace_tag_references(target)
    if not M.json_value(target):
        return False
    if [x["code"] for x in issues] != codes or [x["severity"] for x in issues] != sevs:
        return False
    for x in issues:
        if not M.well_formed(x):
            return False
        if not isinstance(x.get(M.K_STR), str):    # the string context became text
            return False
        if x.get(M.K_ROW) != row:
            return False
    if kind >= 0 and issues[0].get("source_tag") != t:
        return False
    return True


# ------------------------------------------------------------------ registry
_ER = "hed.errors.error_reporter."
_T_DECOR = [_ER + "ErrorHandler.format_error", _ER + "ErrorHandler._create_error_object",
            _ER + "ErrorHandler.add_context_and_filter", _ER + "ErrorHandler._add_context_to_errors",
            _ER + "ErrorHandler._update_error_with_char_pos", _ER + "ErrorHandler._get_tag_span_to_error_object",
            "hed.models.hed_string.HedString._get_org_span", "hed.models.hed_group.HedGroup.check_if_in_original"]
_T_SUB = [_ER + "hed_tag_error", "hed.errors.error_messages.val_error_extra_slashes_spaces"] + _T_DECOR
_STUB_PARSE = "split_into_groups is recompiled from /repo source with `is` on characters replaced by `==` " \
              "(CPython-equivalent; CrossHair proxies have no identity)"
_STUB_NS = "NoSchema stub: tags are not looked up, so no tag is rewritten (HedTag._tag stays None) and tag.tag " \
           "is the original text"


# lengths 0..2: one cell; length 3: by class of s[0], the "other" class also by class of s[1]
_OFF_Q = ([{"VP_N": 2}] + [{"VP_LEN": 3, "VP_C0": a} for a in range(5)]
          + [{"VP_LEN": 3, "VP_C0": 5, "VP_C1": b} for b in range(6)])
_OFF_T = ([{"VP_N": 2}] + R.str_cells(4, split1_from=3, split2_from=4, minlen=3))
# combined_offsets, thorough: all (len(s1), len(s2)) with len(s1) <= 3, len(s2) <= 2 and sum <= 4
_COMB_T = ([{"VP_L1": a, "VP_L2": b} for a in range(4) for b in range(3) if a + b <= 3]
           + [{"VP_L1": a, "VP_L2": 4 - a, "VP_C0": c} for a in (2, 3) for c in range(6)])     # by class of s1[0]
_SORT_Q = ([{"VP_LEN": 0}, {"VP_LEN": 1}] + [{"VP_LEN": 2, "VP_G0": g} for g in _REAL_MASKS]
           + [{"VP_LEN": 3, "VP_KEY": 0, "VP_G0": g} for g in (0, 8)])
_SORT_T = ([{"VP_LEN": 0}, {"VP_LEN": 1}] + [{"VP_LEN": 2, "VP_G0": g} for g in range(16)]
           + [{"VP_LEN": 3, "VP_KEY": k, "VP_G0": g} for k in (0, 1, 2, 4) for g in (k, k + 8)])

HARNESSES = [
    R.H("subtag_offsets", _T_SUB,
        quick=R.tier(cells=_OFF_Q, env={"VP_N": 3}, timeout=400,
                     bound="every Unicode string s with len(s) <= 3, every tag of s, every 0 <= i <= j <= len(tag) "
                           "and j = None"),
        thorough=R.tier(cells=_OFF_T, env={"VP_N": 4}, timeout=2400, path_timeout=60,
                        bound="every Unicode string s with len(s) <= 4, every tag of s, every 0 <= i <= j <= "
                              "len(tag) and j = None"),
        what="a fragment-quoting issue (has_sub_tag wrapper, NODE_NAME_EMPTY) built by format_error on a real tag "
             "of HedString(s) and decorated by a handler holding the string: code/message/severity present, "
             "0 <= char_index <= char_index_end <= len(s), inside the tag's span, equal to span start + the "
             "tag-relative indices, s[char_index:char_index_end] is the quoted fragment, message == template + one "
             "location suffix",
        oracle="models/issues_ref.py (SUBTAG message table, offsets_ok, suffix)",
        stubs=[_STUB_PARSE, _STUB_NS],
        outside="strings longer than the bound; tags rewritten in place (tag.tag set): there the offsets cover the "
                "whole tag by design; index pairs outside the tag (callers' arithmetic is C03/C01's subject)"),
    R.H("invalid_char_offsets", ["hed.validator.util.char_util.CharValidator.check_tag_invalid_chars",
                                 "hed.validator.util.char_util.CharValidator._check_invalid_chars"] + _T_SUB,
        quick=R.tier(cells=R.str_cells(2, split1_from=2, nclass=5, minlen=1), env={"VP_N": 2}, timeout=400,
                     bound="every tag text t over the 14-character alphabet $#/-_aZ9{.~@+blank (a representative of "
                           "each class the check distinguishes; no outer blank), 1 <= len(t) <= 2, in the annotation "
                           "(t); placeholders allowed or not"),
        thorough=R.tier(cells=R.str_cells(3, split1_from=2, split2_from=3, nclass=5, minlen=1), env={"VP_N": 3},
                        timeout=1800, path_timeout=60, bound="same with len(t) <= 3"),
        what="the caller's index arithmetic: the tag-name character check reports one CHARACTER_INVALID issue per "
             "character outside [A-Za-z0-9-_/] (and '#' when placeholders are allowed), in order, each with offsets "
             "selecting exactly that occurrence (also when the same character occurs twice); the message text "
             "built from those offsets is subtag_messages' / subtag_offsets' subject",
        oracle="inline character predicate + models/issues_ref.py (SUBTAG message parts, suffix)",
        stubs=[_STUB_PARSE, _STUB_NS],
        outside="characters outside the 14-character alphabet (all printable ASCII did not exhaust: ~5 s of z3 per "
                "path through str.isalnum on an unconstrained symbolic character); the extension/value character check with its value-class "
                "character sets (C11); namespace prefixes (':' excluded)"),
    R.H("subtag_messages", _T_SUB + ["hed.errors.error_messages.val_error_tag_extended",
                                     "hed.errors.error_messages.val_error_invalid_tag_character",
                                     "hed.errors.error_messages.val_error_INVALID_VALUE_CLASS_CHARACTER",
                                     "hed.errors.error_messages.val_error_INVALID_VALUE_CLASS_VALUE",
                                     "hed.errors.error_messages.val_error_CURLY_BRACE_UNSUPPORTED_HERE",
                                     "hed.errors.error_messages.val_error_invalid_parent",
                                     "hed.errors.error_messages.val_error_no_valid_tag"],
        quick=R.tier(cells=R.int_cells("VP_LEN", 1, 2), env={"VP_N": 2}, timeout=300,
                     bound="all eight has_sub_tag wrappers; string '(' + t + ')' with t any one-tag text, "
                           "1 <= len(t) <= 2; every 0 <= i <= j <= len(t) and j = None"),
        thorough=R.tier(cells=R.product_cells(R.int_cells("VP_LEN", 1, 3), R.int_cells("VP_K", 0, 7)),
                        env={"VP_N": 3}, timeout=600,
                        bound="all eight has_sub_tag wrappers; string '(' + t + ')' with t any one-tag text, "
                              "1 <= len(t) <= 3; every 0 <= i <= j <= len(t) and j = None"),
        what="for each of the eight fragment-quoting message types: reported code and default severity as in the "
             "table, offsets select exactly the fragment and the tag text that the message quotes, one suffix",
        oracle="models/issues_ref.py (SUBTAG)", stubs=[_STUB_PARSE, _STUB_NS],
        outside="t longer than the bound; the extra message argument (value class / expected parent) is a constant"),
    R.H("whole_tag_offsets", [_ER + "hed_tag_error", _ER + "ErrorHandler.format_error_with_context",
                              "hed.errors.error_messages.val_error_duplicate_tag",
                              "hed.errors.error_messages.val_error_empty_group"] + _T_DECOR,
        quick=R.tier(cells=[{"VP_N": 2}, {"VP_LEN": 3}], env={"VP_N": 3}, timeout=300,
                     bound="every Unicode string s with len(s) <= 3; every tag and every empty group of s"),
        thorough=R.tier(cells=[{"VP_N": 3}] + R.str_cells(5, split1_from=4, split2_from=5, minlen=4),
                        env={"VP_N": 5}, timeout=1500, path_timeout=60,
                        bound="every Unicode string s with len(s) <= 5; every tag and every empty group of s"),
        what="a whole-tag issue (HED_TAG_REPEATED on each tag, HED_GROUP_EMPTY on each '()' group) made by "
             "format_error_with_context: offsets inside s, s[char_index:char_index_end] is the tag/group text quoted "
             "in the message, message == template + one location suffix",
        oracle="models/issues_ref.py (WHOLE)", stubs=[_STUB_PARSE, _STUB_NS],
        outside="non-empty groups as the named item (no validator produces them; see report), longer strings"),
    R.H("combined_offsets", ["hed.models.hed_string.HedString.from_hed_strings",
                             "hed.models.hed_string.HedString._get_org_span_from_strings",
                             _ER + "ErrorHandler.format_error_with_context"] + _T_DECOR,
        quick=R.tier(cells=R.product_cells(R.int_cells("VP_L1", 0, 2), R.int_cells("VP_L2", 0, 1)),
                     env={"VP_N": 2, "VP_M": 1}, timeout=400,
                     bound="row string combined from the cells 'q', s1, s2 with len(s1) <= 2, len(s2) <= 1, any "
                           "Unicode"),
        thorough=R.tier(cells=_COMB_T, env={"VP_N": 3, "VP_M": 2}, timeout=2400, path_timeout=60,
                        bound="row string combined from the cells 'q', s1, s2 with len(s1) <= 3, len(s2) <= 2, "
                              "len(s1) + len(s2) <= 4"),
        what="HedString.from_hed_strings of three cells (as the table validator does): the combined text is the "
             "cells joined by ','; an issue naming any tag of any cell gets the tag's span shifted by the lengths "
             "of the preceding cells + commas, and those offsets select that tag's text in the combined text",
        oracle="models/issues_ref.py (WHOLE) + slice equality", stubs=[_STUB_PARSE, _STUB_NS],
        outside="more than three cells, longer cells"),
    R.H("sort_numbered_columns", [_ER + "sort_issues"],
        quick=R.tier(timeout=300, bound="2-3 issues of one file, rows in 0..3, the first two with a numeric column label "
                                        "(0..3) or none"),
        what="sort_issues does not raise when table columns are labelled by numbers (header-less spreadsheets) or "
             "absent, and still orders by row, stably",
        oracle="inline", stubs=[], outside="more issues; mixed string and numeric labels in one list"),
    R.H("decorate_once", [_ER + "ErrorHandler.format_error_with_context",
                          _ER + "ErrorHandler.format_error_from_context",
                          _ER + "ErrorHandler.filter_issues_by_severity", _ER + "hed_error",
                          _ER + "hed_tag_error"] + _T_DECOR,
        quick=R.tier(cells=R.product_cells(R.int_cells("VP_KIND", 0, 3), R.int_cells("VP_LEAD", 0, 1)),
                     env={"VP_N": 2}, timeout=300,
                     bound="string 'y, ' + t or t + ', y' (tag at character 0), t lower-case letters with 1 <= len(t) <= 2; issue kind in {fragment, whole "
                           "tag, tag-less, foreign tag}; severity override in {1,10}; warnings on/off; 1 or 2 "
                           "decoration passes; three decoration routes; any row number"),
        thorough=R.tier(cells=R.product_cells(R.int_cells("VP_KIND", 0, 3), R.int_cells("VP_ROUTE", 0, 2),
                                              R.int_cells("VP_LEAD", 0, 1)),
                        env={"VP_N": 4}, timeout=900,
                        bound="as quick with 1 <= len(t) <= 4"),
        what="after k in {1,2} passes through add_context_and_filter / format_error_with_context / "
             "format_error_from_context: warnings dropped iff errors-only, context keys set, offsets present iff the "
             "issue names a tag of the held string and then unchanged by a second pass, the location suffix occurs "
             "exactly once (never for unlocated issues)",
        oracle="models/issues_ref.py (expected_message, suffix, offsets_ok)", stubs=[_STUB_PARSE, _STUB_NS],
        outside="known finding C12-suffix-repeated (located issue, 2 passes) is excluded while listed"),
    R.H("validate_decorates_once", ["hed.validator.hed_validator.HedValidator.validate",
                                    _ER + "check_for_any_errors",
                                    _ER + "ErrorHandler.filter_issues_by_severity"] + _T_DECOR,
        quick=R.tier(cells=R.product_cells(R.int_cells("VP_B0", 0, 4), R.int_cells("VP_LEAD", 0, 1)),
                     env={"VP_N": 1}, timeout=300,
                     bound="(tag under test at character 0 or behind another tag) real HedValidator.validate over every combination of 2 basic-stage and 1 full-stage "
                           "issue slots (none / located warning / located error / tag-less warning / tag-less "
                           "error), warnings on/off, handler with/without the string; t one lower-case letter"),
        thorough=R.tier(cells=R.product_cells(R.int_cells("VP_B0", 0, 4), R.int_cells("VP_LEAD", 0, 1)),
                        env={"VP_N": 3}, timeout=900, bound="as quick with 1 <= len(t) <= 3"),
        what="issues returned by HedValidator.validate are well-formed, located iff they name a tag and the handler "
             "holds the string, carry the suffix exactly once, and errors-only == error-severity part (same order, "
             "same codes and offsets) of the warnings-on result",
        oracle="models/issues_ref.py (expected_message, error_subset, offsets_ok)",
        stubs=["run_basic_checks / run_full_string_checks are overridden to return issue lists built by the real "
               "format_error on real tags; validate itself is the /repo method", _STUB_PARSE, _STUB_NS],
        outside="which issues the real check stages produce (C01); known finding C12-suffix-repeated excluded "
                "while listed"),
    R.H("errors_only_subset", [_ER + "ErrorHandler.add_context_and_filter",
                               _ER + "ErrorHandler.filter_issues_by_severity",
                               _ER + "ErrorHandler.format_error_with_context"],
        quick=R.tier(env={"VP_N": 3}, timeout=120, bound="issue lists of length <= 3, severities in {1,10}"),
        thorough=R.tier(env={"VP_N": 6}, timeout=600, bound="issue lists of length <= 6, severities in {1,10}"),
        what="errors-only filtering keeps exactly the error-severity issues (same objects, same order) of the "
             "warnings-on list; warnings-on keeps everything",
        oracle="models/issues_ref.py (error_subset, same_objects)", outside="longer lists"),
    R.H("sort_stable", [_ER + "sort_issues"],
        quick=R.tier(cells=_SORT_Q, env={"VP_N": 3, "VP_M": 1}, timeout=300,
                     bound="names = strings of length <= 1, rows = ints >= 0; <= 2 issues, each with one of the five "
                           "presence patterns the validators produce (none / file / file+column / file+column+key "
                           "/ file+row); 3 issues without names, each with or without a row"),
        thorough=R.tier(cells=_SORT_T, env={"VP_N": 3, "VP_M": 1, "VP_MASKS": 1}, timeout=1200, path_timeout=60,
                        bound="names = strings of length <= 1, rows = ints >= 0; <= 2 issues with any of the 16 "
                              "presence patterns of (file, column, key, row) each; 3 issues all carrying the same "
                              "one of nothing / file / column / key (each choice), each with or without a row"),
        what="sort_issues returns a permutation of the same objects, non-decreasing in (file, column, key, row) with "
             "missing name = '' and missing row = -1, equal keys keep input order; input list untouched; "
             "reverse=True is non-increasing",
        oracle="models/issues_ref.py (sort_key, is_stable_sorted_permutation)",
        outside="the title / table-column / line / schema context keys (not set here), longer lists"),
    R.H("export_json_safe", [_ER + "replace_tag_references"] + _T_DECOR,
        quick=R.tier(env={"VP_N": 2}, timeout=150,
                     bound="issue lists of 2..5 issues of every kind decorated with file, row and string context, "
                           "optional nested list/dict values holding tag/string references, 1 or 2 replacement "
                           "passes, list or dict top level; t lower-case letters, len <= 2"),
        thorough=R.tier(env={"VP_N": 4}, timeout=600, bound="as quick with len(t) <= 4"),
        what="after replace_tag_references every value is a JSON value (checked structurally), codes and "
             "severities unchanged, the string context and source_tag became text (source_tag == the tag's text)",
        oracle="models/issues_ref.py (json_value)", stubs=[_STUB_PARSE, _STUB_NS],
        outside="json.dumps itself (C); tuples/sets as values"),
]
