"""C06 — event-file rows assemble into exactly the annotation the sidecar prescribes (cell and row level)."""
import os

from vp import reg as R
from vp import sidecar_stub
from vp.frame_stub import Frame, with_pd_stub
from models import assemble_ref as M
import hed.models.df_util as df_util
from hed.models.df_util import replace_ref
from hed.models.base_input import BaseInput
from hed.models.tabular_input import TabularInput
from hed.models.column_mapper import ColumnMapper
from hed.models.column_metadata import ColumnMetadata, ColumnType

# VP_C06_HARDWIRE=1 in the environment: the known-finding exclusions are active without known_findings.json
# listing them (development aid); otherwise they follow R.known, i.e. known_findings.json
_HARDWIRE_KNOWN = bool(os.environ.get("VP_C06_HARDWIRE"))

_CLS = ",() "               # classes used to partition a reference's surroundings (+ "anything else")


def _known(fid, verdict):
    if _HARDWIRE_KNOWN:
        return bool(verdict)
    return R.known(fid, verdict)


def _mapper(doc, columns):
    """exactly what TabularInput.__init__ + BaseInput.reset_mapper build for a file with these columns"""
    sc = sidecar_stub.load(doc)
    mapper = ColumnMapper(sidecar=sc, optional_tag_columns=[TabularInput.HED_COLUMN_NAME],
                          warn_on_missing_column=True)
    mapper.set_column_map(columns)
    return sc, mapper


def _tabular(doc, frame, refs):
    """a TabularInput over the frame stub: the constructor's pandas reading is skipped, everything it would
    have set is set here; Sidecar.get_column_refs (Series.str.findall) is answered by `refs`"""
    sc, mapper = _mapper(doc, frame.columns)
    sc.get_column_refs = lambda: list(refs)
    inp = object.__new__(TabularInput)
    inp._mapper = mapper
    inp._sidecar = sc
    inp._has_column_names = True
    inp._name = "events"
    inp._loaded_workbook = None
    inp._worksheet_name = None
    inp._dataframe = frame
    return sc, inp


# ================================================================== 1. column kind
# entry kinds: 0 null | 1 string s | 2 {} | 3 {"HED": s} | 4 {"HED": {"a": s}} | 5 {"HED": {"a": s, "b": i}}
#              6 {"HED": i} | 7 {"Levels": s} | 8 {"HED": {}} | 9 {"HED": null} | 10 {"HED": [s]}
#              11 {"HED": s, "Levels": {"a": s}}
def _entry(sel, s, i):
    if sel == 0:
        return None
    if sel == 1:
        return s
    if sel == 2:
        return {}
    if sel == 3:
        return {"HED": s}
    if sel == 4:
        return {"HED": {"a": s}}
    if sel == 5:
        return {"HED": {"a": s, "b": i}}
    if sel == 6:
        return {"HED": i}
    if sel == 7:
        return {"Levels": s}
    if sel == 8:
        return {"HED": {}}
    if sel == 9:
        return {"HED": None}
    if sel == 10:
        return {"HED": [s]}
    return {"HED": s, "Levels": {"a": s}}


_KIND = {ColumnType.Ignore: "ignore", ColumnType.Categorical: "categorical", ColumnType.Value: "value",
         None: "invalid"}


def column_kind(sel: int, s: str, i: int) -> bool:
    """
    pre: 0 <= sel <= 11 and -1 <= i <= 1
    pre: len(s) <= R.N(3)
    post: _
    """
    entry = _entry(sel, s, i)
    want = M.column_kind(entry)
    got = ColumnMetadata._detect_column_type(entry)
    if got not in (ColumnType.Ignore, ColumnType.Categorical, ColumnType.Value, None):
        return False
    if _KIND[got] != want:
        return False
    # the same answer through the constructor (source = whole sidecar dict) ...
    if isinstance(entry, dict):
        cm = ColumnMetadata(name="c", source={"c": entry})
        if cm.column_type != got:
            return False
        # ... and the kind decides which transformer the mapper installs
        sc, mapper = _mapper({"c": entry}, ["c"])
        tr, need_cat = mapper.get_transformers()
        if want == "ignore":
            return "c" not in tr and need_cat == []
        if want == "categorical":
            return "c" in tr and need_cat == ["c"] and tr["c"].func.__name__ == "_category_handler"
        if want == "value":
            return "c" in tr and need_cat == [] and tr["c"].func.__name__ == "_value_handler"
    return True


# ================================================================== 2. value cell
def _kf_empty_value_cell(x):
    """an empty cell in a value column (reachable with a DataFrame source; a .tsv reader turns it into n/a)"""
    return x == ""


def value_cell(tmpl: str, x: str) -> bool:
    """
    pre: len(tmpl) <= R.N(3) and len(x) <= R.M(3)
    pre: "#" in tmpl
    pre: R.scell(tmpl, "#")
    pre: not _known("C06-empty-value-cell", _kf_empty_value_cell(x))
    post: _
    """
    sc, mapper = _mapper({"v": {"HED": tmpl}}, ["onset", "v"])
    tr, need_cat = mapper.get_transformers()
    if list(tr) != ["v"] or need_cat != []:
        return False
    out = tr["v"](x)
    return M.value_cell_ok(tmpl, x, out)


# ================================================================== 3. categorical cell
def category_cell(e1: str, e2: str, x: str) -> bool:
    """
    pre: len(e1) <= R.N(2) and len(e2) <= R.N(2) and len(x) <= R.M(3)
    post: _
    """
    sc, mapper = _mapper({"c": {"HED": {"a": e1, "b": e2}, "Levels": {"a": "x"}}}, ["c", "onset"])
    tr, need_cat = mapper.get_transformers()
    if list(tr) != ["c"] or need_cat != ["c"]:
        return False
    out = tr["c"](x)
    want = M.category_cell(["a", "b"], [e1, e2], x)
    if want == "":
        return M.skipped(out)
    return out == want


# ================================================================== 4. row join
def join_row(c0: str, c1: str, c2: str, ncol: int) -> bool:
    """
    pre: 1 <= ncol <= 3
    pre: len(c0) <= R.N(3) and len(c1) <= R.N(3) and len(c2) <= R.N(3)
    pre: ncol >= 2 or c1 == ""
    pre: ncol >= 3 or c2 == ""
    pre: _ncol_cell(ncol, c0)
    post: _
    """
    cells = [c0, c1, c2][:ncol]
    frame = Frame.from_rows(["x", "y", "z"][:ncol], [cells, ["k"] * ncol, ["n/a"] * ncol])
    out = BaseInput.combine_dataframe(frame)
    # one annotation per row, in row order
    return len(out) == 3 and out[0] == M.join_row(cells) and out[1] == ", ".join(["k"] * ncol) and out[2] == ""


def _ncol_cell(ncol, c0):
    t = R.env_int("VP_NCOL")
    if t is not None and ncol != t:
        return False
    t = R.env_int("VP_L0")
    return t is None or len(c0) == t


def _join_cells(n):
    return [{"VP_NCOL": 1}, {"VP_NCOL": 2}] + [{"VP_NCOL": 3, "VP_L0": k} for k in range(n + 1)]


# ================================================================== 5. splice of a curly-brace reference
_NAMES = ["r", "HED", "a-b", "_", "x2", "0", "2", "10"]      # reference names (all match [a-z_\\-0-9]+)
_NSYM = 6     # names explored symbolically.  "2" and "10" are kept for concrete witnesses only: un-escaped they
#               become a quantifier on a named group, which CrossHair's regex model does not execute the way
#               CPython does (it reported 'confirmed' for inputs that fail concretely), so no claim is made there


def _surround(s):
    """printable ASCII without curly braces (a template's other braces are other references: C08)"""
    for c in s:
        if not (32 <= ord(c) < 127) or c == "{" or c == "}":
            return False
    return True


def _kf_empty_ref(pre_, ref, post_, v):
    """the referenced column's contribution is the empty string (what _category_handler returns for an n/a or
    unknown categorical cell) and the reference, a list item of its own, has a comma or parentheses around it"""
    if v != "":
        return False
    return M.removal_defined(pre_ + ref + post_, ref) and M.trim(pre_) + M.trim(post_) != ""


def _kf_digit_ref(rsel, v):
    """the referenced column's name consists of digits only and its cell is n/a: the un-escaped name is read
    as a regular-expression quantifier"""
    return v == "n/a" and _NAMES[rsel].isdigit()


def _kf_blank_before_first_ref(pre_, post_, v):
    """the referenced cell is n/a, the reference is the first item of the annotation, blanks precede it and a
    comma follows it: the blanks are taken for the separator and the comma survives"""
    return v == "n/a" and pre_ != "" and M.trim(pre_) == "" and M.trim(post_)[:1] == ","


def _vsel_ok(vsel, v):
    """vsel 0: the referenced cell is n/a; 1: it is empty; 2: any other text"""
    if vsel == 0:
        return v == "n/a"
    if vsel == 1:
        return v == ""
    return vsel == 2 and v != "" and v != "n/a"


def _splice_cell(pre_, post_, vsel, rsel):
    for name, val in (("VP_VSEL", vsel), ("VP_RSEL", rsel), ("VP_LP", len(pre_)), ("VP_LQ", len(post_))):
        t = R.env_int(name)
        if t is not None and val != t:
            return False
    t = R.env_int("VP_P0")
    if t is not None and (len(pre_) < 1 or R.cls_of(pre_[0], _CLS) != t):
        return False
    t = R.env_int("VP_Q0")
    if t is not None and (len(post_) < 1 or R.cls_of(post_[0], _CLS) != t):
        return False
    return True


def _splice_cells(shapes, vsels=(0, 1, 2), rsels=(0,), per_cell=2):
    """disjoint cover of {(vsel, rsel, pre, post)}: one cell per (vsel, rsel, len(pre), len(post)) in `shapes`;
    for the n/a case (symbolic regular expression, the slow part) shapes with more than `per_cell` surrounding
    characters are split by the class of pre[0], then of post[0]"""
    cells = []
    for vsel in vsels:              # vsel None: the cell holds all three kinds of referenced value
        for rsel in rsels:
            for lp, lq in shapes:
                base = [{"VP_RSEL": rsel, "VP_LP": lp, "VP_LQ": lq}]
                if vsel is not None:
                    base[0]["VP_VSEL"] = vsel
                extra = lp + lq - per_cell if vsel != 2 else lp + lq - per_cell - 1
                if extra > 0 and lp >= 1:
                    base = [dict(b, VP_P0=k) for b in base for k in range(len(_CLS) + 1)]
                    extra -= 1
                if extra > 0 and lq >= 1:
                    base = [dict(b, VP_Q0=k) for b in base for k in range(len(_CLS) + 1)]
                cells += base
    return cells


def _shapes(each, total):
    return [(a, b) for a in range(each + 1) for b in range(each + 1) if a + b <= total]


def splice_ref(pre_: str, post_: str, vsel: int, v: str, rsel: int) -> bool:
    """
    pre: 0 <= rsel < _NSYM and 0 <= vsel <= 2
    pre: len(pre_) <= R.N(2) and len(post_) <= R.N(2) and len(v) <= 3
    pre: _splice_cell(pre_, post_, vsel, rsel)
    pre: _surround(pre_) and _surround(post_)
    pre: _vsel_ok(vsel, v) and (vsel != 2 or (len(v) <= R.M(2) and _surround(v)))
    pre: not _known("C06-na-categorical-in-reference", _kf_empty_ref(pre_, "{" + _NAMES[rsel] + "}", post_, v))
    pre: not _known("C06-digit-column-reference", _kf_digit_ref(rsel, v))
    pre: not _known("C06-blank-before-first-reference", _kf_blank_before_first_ref(pre_, post_, v))
    post: _
    """
    ref = "{" + _NAMES[rsel] + "}"
    out = replace_ref(pre_ + ref + post_, ref, v)
    return M.spliced_ok(pre_, ref, post_, v, out)


# ================================================================== 6. whole rows through TabularInput
# sidecar: c  categorical {"a": ea, "b": "Blue"}                                   <- referenced by {c}
#          v  value       "L/#"                                                    <- referenced by {v}
#          t  categorical {"s": pre + "{c}" + post, "w": pre + "{v}" + post, "u": "Up"}
#          n  no HED key (ignored);  "onset" is not in the sidecar;  the file has a HED column
# file columns (deliberately not in sorted order): onset, t, HED, n, c, v
_COLS = ["onset", "t", "HED", "n", "c", "v"]


def _row_doc(pre_, post_, ea):
    return {"c": {"HED": {"a": ea, "b": "Blue"}}, "v": {"HED": "L/#"},
            "t": {"HED": {"s": pre_ + "{c}" + post_, "w": pre_ + "{v}" + post_, "u": "Up"}},
            "n": {"Levels": {"a": "x"}}}


def _kf_row_na_ref(pre_, post_, ea, xc, xt):
    """row form of C06-na-categorical-in-reference: the cell of t selects the template that references c and
    the cell of c selects nothing"""
    if xt != "s":
        return False
    return _kf_empty_ref(pre_, "{c}", post_, M.category_cell(["a", "b"], [ea, "Blue"], xc))


def _row_cell(pre_, post_):
    for name, val in (("VP_LP", len(pre_)), ("VP_LQ", len(post_))):
        t = R.env_int(name)
        if t is not None and val != t:
            return False
    t = R.env_int("VP_P0")
    if t is not None and (len(pre_) < 1 or R.cls_of(pre_[0], _CLS) != t):
        return False
    t = R.env_int("VP_Q0")
    if t is not None and (len(post_) < 1 or R.cls_of(post_[0], _CLS) != t):
        return False
    return True


def _row_cells(shapes, per_cell=2):
    """one cell per (len(pre), len(post)); shapes with more than `per_cell` surrounding characters are split by
    the class of pre[0], then of post[0]"""
    cells = []
    for lp, lq in shapes:
        base = [{"VP_LP": lp, "VP_LQ": lq}]
        extra = lp + lq - per_cell
        if extra > 0 and lp >= 1:
            base = [dict(b, VP_P0=k) for b in base for k in range(len(_CLS) + 1)]
            extra -= 1
        if extra > 0 and lq >= 1:
            base = [dict(b, VP_Q0=k) for b in base for k in range(len(_CLS) + 1)]
        cells += base
    return cells


def _same_or_skipped(got, want):
    if M.skipped(want):
        return M.skipped(got)
    return got == want


def row_ref_categorical(pre_: str, post_: str, ea: str, xc: str) -> bool:
    """
    pre: len(pre_) <= R.N(2) and len(post_) <= R.N(2) and len(pre_) + len(post_) <= R.env_int("VP_SUM", 2)
    pre: _row_cell(pre_, post_)
    pre: _surround(pre_) and _surround(post_)
    pre: 1 <= len(ea) <= R.M(1) and _surround(ea) and ea != "n/a"
    pre: len(xc) <= 3
    pre: not _known("C06-na-categorical-in-reference", _kf_row_na_ref(pre_, post_, ea, xc, "s"))
    post: _
    """
    return _row_check(pre_, post_, ea, xc, "s", "Red", "7")


def row_ref_value(pre_: str, post_: str, xv: str) -> bool:
    """
    pre: len(pre_) <= R.N(2) and len(post_) <= R.N(2) and len(pre_) + len(post_) <= R.env_int("VP_SUM", 2)
    pre: _row_cell(pre_, post_)
    pre: _surround(pre_) and _surround(post_)
    pre: len(xv) <= 3 and _surround(xv)
    pre: not _known("C06-empty-value-cell", _kf_empty_value_cell(xv))
    pre: not _known("C06-blank-before-first-reference", _kf_blank_before_first_ref(pre_, post_, xv))
    post: _
    """
    return _row_check(pre_, post_, "Az", "a", "w", "Red", xv)


def row_cells(ea: str, xc: str, xt: str, h: str, xv: str) -> bool:
    """
    pre: 1 <= len(ea) <= R.M(1) and _surround(ea) and ea != "n/a"
    pre: len(xc) <= 3 and len(xt) <= 3 and len(h) <= R.N(2) and len(xv) <= 3
    pre: _surround(h) and (xv == "n/a" or xv == "7")
    pre: _rc_cell(xt, xv)
    pre: not _known("C06-na-categorical-in-reference", _kf_row_na_ref("(", "), Sq", ea, xc, xt))
    post: _
    """
    return _row_check("(", "), Sq", ea, xc, xt, h, xv)


def _rc_cell(xt, xv):
    t = R.env_int("VP_XT")          # 0: 's', 1: 'w', 2: 'u', 3: anything else
    if t is not None:
        k = 0 if xt == "s" else (1 if xt == "w" else (2 if xt == "u" else 3))
        if k != t:
            return False
    t = R.env_int("VP_XV")          # 0: n/a, 1: anything else
    if t is not None and (0 if xv == "n/a" else 1) != t:
        return False
    return True


def _row_check(pre_, post_, ea, xc, xt, h, xv):
    doc = _row_doc(pre_, post_, ea)
    rows = [["1.0", xt, h, "a", xc, xv], ["2.0", "u", "Green", "n/a", "b", "n/a"]]
    frame = Frame.from_rows(_COLS, rows)
    before = frame.snapshot()
    sc, inp = _tabular(doc, frame, ["c", "v"])

    plain = inp.assemble(skip_curly_braces=True)                        # transforms only
    spliced = with_pd_stub(df_util, inp.assemble)                       # transforms + reference splice
    joined = with_pd_stub(df_util, lambda: inp.series_a)                # assembled again + row join

    # -- after the transforms: exactly the HED column and the sidecar's HED-bearing columns; every cell is its
    #    column's contribution (the ignored column n and the unlisted column onset drop out)
    if sorted(plain.columns) != ["HED", "c", "t", "v"] or len(plain) != 2:
        return False
    ec = M.category_cell(["a", "b"], [ea, "Blue"], xc)
    et = M.category_cell(["s", "w", "u"], [pre_ + "{c}" + post_, pre_ + "{v}" + post_, "Up"], xt)
    if plain["HED"] != [h, "Green"]:
        return False
    if not _same_or_skipped(plain["c"][0], ec) or plain["c"][1] != "Blue":
        return False
    if not _same_or_skipped(plain["t"][0], et) or plain["t"][1] != "Up":
        return False
    ev = plain["v"][0]
    if not M.value_cell_ok("L/#", xv, ev) or not M.skipped(plain["v"][1]):
        return False

    # -- after the splice: referenced columns are not listed separately; each reference is replaced in place by
    #    the contribution of ITS column in THIS row, or removed as a list item when that is nothing
    if sorted(spliced.columns) != ["HED", "t"] or len(spliced) != 2:
        return False
    if spliced["HED"] != [h, "Green"] or spliced["t"][1] != "Up":
        return False
    t0 = spliced["t"][0]
    if xt == "s":
        if not M.spliced_ok(pre_, "{c}", post_, ec, t0):
            return False
    elif xt == "w":
        if not M.spliced_ok(pre_, "{v}", post_, ev, t0):
            return False
    elif not _same_or_skipped(t0, et):
        return False

    # -- one annotation per row in row order: the non-skipped cells of the (first) assembly joined by ", ";
    #    series_a assembled a second time, so this also says the second answer equals the first
    if len(joined) != 2:
        return False
    r0, r1 = spliced.rows()
    if joined[0] != M.join_row(r0) or joined[1] != M.join_row(r1):
        return False
    if joined[1] != "Green, Up" and joined[1] != "Up, Green":
        return False

    # -- table and sidecar unchanged
    if frame.snapshot() != before or inp.dataframe is not frame:
        return False
    return sc.loaded_dict == _row_doc(pre_, post_, ea)


# ------------------------------------------------------------------ registry
_T_MAP = ["hed.models.column_mapper.ColumnMapper.__init__", "hed.models.column_mapper.ColumnMapper.set_column_map",
          "hed.models.column_mapper.ColumnMapper._finalize_mapping",
          "hed.models.column_mapper.ColumnMapper._get_sidecar_basic_map",
          "hed.models.column_mapper.ColumnMapper.get_transformers",
          "hed.models.sidecar.Sidecar.column_data",
          "hed.models.column_metadata.ColumnMetadata.__init__",
          "hed.models.column_metadata.ColumnMetadata._detect_column_type",
          "hed.models.column_metadata.ColumnMetadata.hed_dict",
          "hed.models.column_metadata.ColumnMetadata.source_dict"]
_STUB_JSON = ("the sidecar is given as an already decoded JSON value (vp/sidecar_stub.py: json.load answered by "
              "the decoded document; Sidecar.__init__/load_sidecar_files/column_data are the real code)")
_STUB_FRAME = ("frame stub (vp/frame_stub.py): the table is an ordered map column -> list of str with the pandas "
               "meaning of df[list], df[name], df[...] = ..., copy, astype (values unchanged), transform({col: f}), "
               "apply(f, axis=1); `pd.Series(iterable)` inside hed.models.df_util is a list; RangeIndex assumed")

_T_ROW = _T_MAP + ["hed.models.base_input.BaseInput.assemble", "hed.models.base_input.BaseInput._handle_transforms",
                   "hed.models.base_input.BaseInput.series_a", "hed.models.base_input.BaseInput.combine_dataframe",
                   "hed.models.df_util._handle_curly_braces_refs", "hed.models.df_util.replace_ref",
                   "hed.models.column_mapper.ColumnMapper._category_handler",
                   "hed.models.column_mapper.ColumnMapper._value_handler"]
_B_ROW = ("two-row file with columns onset, t, HED, n, c, v; sidecar c: categorical {a, b}, v: value 'L/#', "
          "t: categorical {s: pre+'{c}'+post, w: pre+'{v}'+post, u: 'Up'}, n: no HED; row 2 fixed")
_W_ROW = ("TabularInput.assemble(skip_curly_braces=True), .assemble() and .series_a: after the transforms exactly "
          "the HED column and the sidecar's HED-bearing columns remain, each cell being its column's contribution "
          "(the ignored and the unlisted column drop out); after the splice the referenced columns are not listed "
          "separately and each reference is replaced in place by its own column's contribution in that row, or "
          "removed as a list item when that is nothing; each row's annotation is its non-skipped cells joined by "
          "', ', one per row in row order; assembling again gives the same answer; table and sidecar unchanged")
_O_ROW = "models/assemble_ref.py (category_cell, value_cell_ok, spliced_ok, join_row)"
_S_ROW = [_STUB_JSON, _STUB_FRAME,
          "TabularInput is allocated without its constructor's pandas reading; Sidecar.get_column_refs "
          "(Series.str.findall) is answered by the list ['c', 'v'] that the template construction fixes"]
_X_ROW = ("pandas glue proper (dtype round trip through 'category', index alignment, reading the file), "
          "Sidecar.get_column_refs, tables with more than one symbolic row, two references in one template")

_RC_CELLS = R.product_cells(R.int_cells("VP_XT", 0, 3), R.int_cells("VP_XV", 0, 1))

# ================================================================== 9. which columns a sidecar references
_REF_NAMES = ["r", "a-b", "_", "x2", "0", "HED", "Ab", "resp-type_2"]
_SEP = ["", ", ", "("]


def refs_found(n1: int, n2: int, two: bool, a: int, b: int) -> bool:
    """
    pre: 0 <= n1 < len(_REF_NAMES) and 0 <= n2 < len(_REF_NAMES)
    pre: 0 <= a < len(_SEP) and 0 <= b < len(_SEP)
    pre: two or n2 == 0
    pre: (not two) or (a == 0 and b == 0)
    pre: R.env_int("VP_K") is None or n1 == R.env_int("VP_K")
    post: _
    """
    # Sidecar.get_column_refs decides which columns are spliced instead of listed: every {name} written in any
    # HED string of the sidecar must be found - names may contain letters of either case, digits, '_' and '-'.
    # (pandas' .str.findall realises its input, so the small selector ranges are enumerated by the solver.)
    x, y = _REF_NAMES[n1], _REF_NAMES[n2]
    cat = _SEP[a] + "{" + x + "}" + _SEP[b]
    doc = {"t": {"HED": {"s": cat, "u": "Up"}}, "w": {"HED": ("{" + y + "}, L/#") if two else "L/#"},
           "n": {"Levels": {"a": "{zz}"}}}
    sc = sidecar_stub.load(doc)
    # every text is a concrete element of the tables above by now (the solver picked the selectors); pandas runs
    # natively: traced, each .str accessor forks 4-5 ways on concrete data
    try:
        from crosshair.tracers import NoTracing
    except ImportError:
        NoTracing = None
    if NoTracing is None:
        got = sorted(sc.get_column_refs())
    else:
        with NoTracing():
            got = sorted(sc.get_column_refs())
    want = [x]
    if two and y != x:
        want.append(y)
    return got == sorted(want)


HARNESSES = [
    R.H("refs_found", ["hed.models.sidecar.Sidecar.get_column_refs"],
        quick=R.tier(cells=R.int_cells("VP_K", 0, 7), timeout=300,
                     bound="8 reference names (letters of both cases, digits, '_', '-') x 3 separators on "
                                        "either side x optional second reference in a value column (solver-enumerated: "
                                        "pandas realises the strings)"),
        what="get_column_refs returns exactly the names written in braces in the HED strings of HED-bearing columns "
             "(and nothing from ignored columns), so that every such column is spliced rather than listed",
        oracle="the names the harness wrote", stubs=["vp/sidecar_stub.load (decoded document instead of a JSON file)"],
        outside="names outside the documented pattern [A-Za-z0-9_-]+"),
    R.H("column_kind", _T_MAP,
        quick=R.tier(env={"VP_N": 3}, timeout=120, bound="12 entry shapes x every string s with len(s) <= 3 x i in -1..1"),
        thorough=R.tier(env={"VP_N": 5}, timeout=600, bound="12 entry shapes x every string s with len(s) <= 5 x i in -1..1"),
        what="_detect_column_type classifies a sidecar entry as ignore / categorical / value / invalid exactly as the "
             "reference reading (no HED key or not an object: ignore; HED object of strings: categorical; HED string "
             "with '#': value; anything else: invalid = None), the constructor agrees, and get_transformers installs "
             "no transformer / the categorical handler (+ need_categorical) / the value handler accordingly",
        oracle="models/assemble_ref.py:column_kind", stubs=[_STUB_JSON],
        outside="how invalid entries are reported (C08); entries nested deeper than shown"),
    R.H("value_cell", _T_MAP + ["hed.models.column_mapper.ColumnMapper._value_handler"],
        quick=R.tier(env={"VP_N": 3, "VP_M": 3}, timeout=150,
                     bound="every template with len <= 3 containing '#', every cell text with len <= 3"),
        thorough=R.tier(cells=R.str_cells(4, split1_from=4, nclass=2, minlen=1), env={"VP_N": 4, "VP_M": 4},
                        timeout=900,
                        bound="every template with len <= 4 containing '#', every cell text with len <= 4"),
        what="the transformer that the real mapper installs for a value column returns the template with every "
             "'#' replaced by the cell text; an n/a (or empty) cell stays skipped",
        oracle="models/assemble_ref.py:value_cell_ok", stubs=[_STUB_JSON],
        outside="numeric cells other than str (the table is read with dtype=str)"),
    R.H("category_cell", _T_MAP + ["hed.models.column_mapper.ColumnMapper._category_handler"],
        quick=R.tier(env={"VP_N": 2, "VP_M": 3}, timeout=150,
                     bound="categories 'a','b' with every entry text of len <= 2, every cell text with len <= 3"),
        thorough=R.tier(env={"VP_N": 4, "VP_M": 4}, timeout=900,
                        bound="categories 'a','b' with every entry text of len <= 4, every cell text with len <= 4"),
        what="the transformer installed for a categorical column returns the entry stored under the cell text; an "
             "n/a, empty or unknown cell contributes nothing (empty or n/a)",
        oracle="models/assemble_ref.py:category_cell", stubs=[_STUB_JSON],
        outside="sidecars whose category keys are themselves 'n/a' or empty (keys are the fixed 'a','b')"),
    R.H("join_row", ["hed.models.base_input.BaseInput.combine_dataframe"],
        quick=R.tier(cells=_join_cells(3), env={"VP_N": 3}, timeout=150,
                     bound="rows of 1..3 cells, every cell text with len <= 3; two further fixed rows"),
        thorough=R.tier(cells=_join_cells(4), env={"VP_N": 4}, timeout=900,
                        bound="rows of 1..3 cells, every cell text with len <= 4; two further fixed rows"),
        what="combine_dataframe returns one text per row in row order: the cells that are neither empty nor n/a "
             "joined by ', '",
        oracle="models/assemble_ref.py:join_row", stubs=[_STUB_FRAME],
        outside="pandas' own apply(axis=1); non-str cells"),
    R.H("splice_ref", ["hed.models.df_util.replace_ref"],
        quick=R.tier(cells=_splice_cells(_shapes(2, 3)) + _splice_cells([(0, 0), (1, 0), (0, 1)], (None,), (1, 2, 3, 4, 5)),
                     env={"VP_N": 2, "VP_M": 1}, timeout=150,
                     bound="template pre+'{r}'+post, pre/post printable ASCII without braces, each len <= 2, together "
                           "<= 3; referenced value n/a, empty, or 1 printable character; further reference names "
                           "HED, a-b, _, x2, 0 with at most one surrounding character"),
        thorough=R.tier(cells=_splice_cells(_shapes(2, 4) + [(3, 0), (3, 1), (0, 3), (1, 3)])
                        + _splice_cells(_shapes(1, 2), (None,), (1, 2, 3, 4, 5)),
                        env={"VP_N": 3, "VP_M": 2}, timeout=1100, path_timeout=60,
                        bound="pre/post printable ASCII without braces, lengths (<=2,<=2), (3,<=1), (<=1,3); value n/a, "
                              "empty, or <= 2 printable characters; the reference names HED, a-b, _, x2, 0 with each "
                              "surrounding <= 1"),
        what="after splicing, the reference is gone; a value that is neither n/a nor empty stands exactly in its "
             "place; for an n/a or empty value, whenever the template is a well-formed list with the reference as "
             "an item of its own, the result is delimiter-well-formed and parses to the template's tree with that "
             "item (and the parentheses enclosing only it) removed",
        oracle="models/assemble_ref.py:spliced_ok (independent tokenizer, list grammar, tree, item removal)",
        stubs=["reference names are drawn from a fixed list of 6 (one per cell); the name must be concrete because "
               "it becomes part of the regular expression; all-digit names other than '0' are excluded because "
               "CrossHair's regex model mis-executes the quantifier they turn into"],
        outside="templates with several references; non-ASCII or non-printable surroundings; other column names"),
    R.H("row_ref_categorical", _T_ROW,
        quick=R.tier(cells=_row_cells(_shapes(2, 2)), env={"VP_N": 2, "VP_M": 1, "VP_SUM": 2}, timeout=150,
                     bound=_B_ROW + "; row 1: t = 's' (template referencing c), HED = 'Red', v = '7'; symbolic: pre/post "
                           "printable ASCII without braces with len(pre)+len(post) <= 2, entry 'a' of c (1 "
                           "character), cell of c (any text, len <= 3)"),
        thorough=R.tier(cells=_row_cells(_shapes(2, 4)), env={"VP_N": 2, "VP_M": 2, "VP_SUM": 4}, timeout=1100,
                        path_timeout=60, bound=_B_ROW + "; as quick with pre/post each <= 2, entry <= 2 characters"),
        what=_W_ROW, oracle=_O_ROW, stubs=_S_ROW, outside=_X_ROW),
    R.H("row_ref_value", _T_ROW,
        quick=R.tier(cells=_row_cells(_shapes(2, 2), per_cell=1), env={"VP_N": 2, "VP_SUM": 2}, timeout=150,
                     bound=_B_ROW + "; row 1: t = 'w' (template referencing v), c = 'a', HED = 'Red'; symbolic: pre/post "
                           "printable ASCII without braces with len(pre)+len(post) <= 2, cell of v (any such text, "
                           "len <= 3, incl. n/a)"),
        thorough=R.tier(cells=_row_cells(_shapes(2, 3), per_cell=1), env={"VP_N": 2, "VP_SUM": 3}, timeout=1100,
                        path_timeout=60, bound=_B_ROW + "; as quick with len(pre)+len(post) <= 3, each <= 2"),
        what=_W_ROW, oracle=_O_ROW, stubs=_S_ROW, outside=_X_ROW),
    R.H("row_cells", _T_ROW,
        quick=R.tier(cells=_RC_CELLS, env={"VP_N": 1, "VP_M": 1}, timeout=150,
                     bound=_B_ROW + "; templates '({c}), Sq' and '({v}), Sq'; symbolic: cells of c and t (any text, len "
                           "<= 3), HED cell (printable, len <= 1), cell of v in {n/a, 7}, entry 'a' of c "
                           "(1 character)"),
        thorough=R.tier(cells=_RC_CELLS, env={"VP_N": 2, "VP_M": 2}, timeout=1100, path_timeout=60,
                        bound=_B_ROW + "; as quick with HED cell len <= 2 and entry <= 2 characters"),
        what=_W_ROW, oracle=_O_ROW, stubs=_S_ROW, outside=_X_ROW),
]
