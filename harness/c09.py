"""C09 - definitions expand to their declared content and shrink back losslessly.

Real code under symbolic execution (schema: vp.mini.MINI):
  def_accept / def_duplicate   DefinitionDict.check_for_definitions and its helpers on a definition string whose
                               name is symbolic and whose shape is chosen by solver-enumerated bits
  expand_shrink_algebra        HedString.expand_defs / shrink_defs / copy in a symbolic order on one object
  defexpand_valid              DefValidator.validate_def_tags on a written Def-expand group
Reference: models/defs_ref.py (text-level rules D1-D6, E1-E4 written from the property).
"""
from vp import reg as R
from vp import chx, chx_hash, chx_fmt, astpatch
from vp import chx_flat
from vp.chx_flat import flat
from vp.mini import MINI
from models import defs_ref as D
from hed.models.hed_string import HedString
from hed.models.definition_dict import DefinitionDict
from hed.validator.def_validator import DefValidator

chx.install()
chx_hash.install()
chx_fmt.install()
chx_flat.install_slices()
astpatch.is_to_eq(HedString, "split_into_groups")   # `is '('` -> `== '('` (see vp/astpatch.py, as in C02)

# ---- the fixed definition set used by the expansion / validation kernels (labels are two letters)
_DEF_TEXT = ["(Definition/ab, (B, G))",            # no value, flat content
             "(Definition/cd/#, (B, C/#))",        # value on a numeric tag with timeUnits
             "(Definition/ef)",                    # no content
             "(Definition/hh/#, (H/#))",           # value on a nameClass tag
             "(Definition/nn, (G, (B, E)))"]       # nested content
_REF_DEFS = [D.Entry("ab", False, "(B,G)"), D.Entry("cd", True, "(B,C/#)"), D.Entry("ef", False, None),
             D.Entry("hh", True, "(H/#)"), D.Entry("nn", False, "(G,(B,E))")]
_DD = DefinitionDict(_DEF_TEXT, MINI)
assert not _DD.issues and sorted(_DD.defs) == sorted(e.label for e in _REF_DEFS)
_DV = DefValidator(_DD)

EXPAND, SHRINK, COPY = 0, 1, 2
_HARDWIRED = False    # development switch: True hard-wires every known-finding exclusion on; False = governed by known_findings.json


def _env_is(name, x):
    c = R.env_int(name)
    return c is None or x == c


def _active(fid):
    """is the known finding `fid` excluded from the search?  (R.known's switch: known_findings.json lists it with
    status 'known' and VP_NO_EXCLUDE is unset)  The _kf_* predicates need a parse, so they are only evaluated
    when the switch is on:  `if _active(id) and _kf_x(...): return False`  ==  `pre: not R.known(id, _kf_x(...))`"""
    return _HARDWIRED or R.known_active(fid)


def _no_delims(t):
    """quick tier (VP_NODELIM=1): the symbolic text holds none of ',', '(' , ')' - the surface structure of the
    annotation is then the template's (structure-changing texts are C02's subject; thorough keeps them)"""
    if R.env_int("VP_NODELIM", 0):
        for ch in t:
            if ch == "," or ch == "(" or ch == ")":
                return False
    return True


# =============================================================================================== kernel 1
# body of the definition group after the Definition tag; chosen by a solver-enumerated index
_SHAPES = ["",                                  # 0  no content group
           ", (B, G)",                          # 1  plain content
           ", (C/#, B)",                        # 2  one '#' on a value-taking tag
           ", (G, (B, C/#))",                   # 3  the same, nested
           ", (B/#)",                           # 4  '#' on a tag that takes no value
           ", (C/#, H/#)",                      # 5  two placeholders
           ", (C/##, B)",                       # 6  two '#' on one tag
           ", (Def/ab, B)",                     # 7  Def inside
           ", (B, (Def-expand/ab, (G)))",       # 8  Def-expand inside, deeper
           ", (Definition/q, B)",               # 9  Definition inside
           ", (B), (G)",                        # 10 two groups
           ", B, (G)"]                          # 11 an extra tag next to the Definition tag


def _def_text(name, sfx, shape):
    return "(Definition/" + flat(name) + ("/#" if sfx else "") + _SHAPES[shape] + ")"


def _c03_hash_term(name):
    """C03's finding, not C09's: a first name term that is a literal '#' followed by '/' is swallowed by the table
    form 'definition/#' (HedSchema._find_tag_entry), so Definition/#/x is read as the name 'x'."""
    return name.startswith("#/")


def _kf_two_placeholders(name, sfx, shape):
    """known finding C09-two-placeholders-accepted: a definition whose name does not end in '/#' but whose content
    carries a '#' on two (or more) different tags is accepted (_validate_placeholders only tests `== 1`)."""
    if shape != 5:
        return False
    c = D.candidates(_def_text(name, sfx, shape))        # the name may change the structure: ask the reference
    return len(c) == 1 and c[0][2] == ["D5"] and not c[0][1].takes_value and c[0][1].content == "(C/#,H/#)"


def _acc_pre(name, sfx, shape):
    if not (0 <= shape < len(_SHAPES)) or not _env_is("VP_SHAPE", shape) or not _env_is("VP_SFX", int(sfx)):
        return False
    lo, hi = R.env_int("VP_SHAPE_LO"), R.env_int("VP_SHAPE_HI")
    if lo is not None and not (lo <= shape <= hi):
        return False
    if not (1 <= len(name) <= R.N(2)) or not R.scell(name) or not R.ascii_printable(name):
        return False
    if not _no_delims(name):
        return False
    if _c03_hash_term(flat(name)):
        return False
    if _active("C09-two-placeholders-accepted"):
        if _kf_two_placeholders(name, sfx, shape):
            return False
    return True


def _entries_match(dd, acc):
    """dd.defs holds exactly the reference's accepted entries: key = label lower-cased, name, takes_value and
    content (up to sibling order; the dictionary keeps a sorted copy)"""
    if list(dd.defs.keys()) != [e.label.lower() for e in acc]:
        return False
    for e in acc:
        got = dd.defs[e.label.lower()]
        if got.name != e.label or got.takes_value != e.takes_value:
            return False
        if e.content is None or e.content == "()":
            if got.contents:
                return False
        elif not got.contents or D.same_content(str(got.contents), e.content) is not True:
            return False
    return True


def def_accept(name: str, sfx: bool, shape: int) -> bool:
    """
    pre: _acc_pre(name, sfx, shape)
    post: _
    """
    s = _def_text(name, sfx, shape)
    dd = DefinitionDict()
    dd.defs = dict()          # under CrossHair: scan-based map (a `{}` literal would hash = realise the key)
    dd.check_for_definitions(HedString(s, MINI))
    acc, dups = D.accept_all([s])
    return _entries_match(dd, acc) and dd.issues == []


_FIRST = ["aB", "Q"]          # label of the definition already in the dictionary


def _dup_pre(k, n2, via):
    if not (0 <= via <= 2 and 0 <= k < len(_FIRST)) or not _env_is("VP_VIA", via) or not _env_is("VP_K", k):
        return False
    if not (1 <= len(n2) <= R.N(2)) or not R.scell(n2) or not R.ascii_printable(n2):
        return False
    return _no_delims(n2) and not _c03_hash_term(flat(n2))


def def_duplicate(k: int, n2: str, via: int) -> bool:
    """
    pre: _dup_pre(k, n2, via)
    post: _
    """
    s1 = "(Definition/" + _FIRST[k] + ", (B))"
    s2 = "(Definition/" + flat(n2) + "/#, (C/#))"
    acc, dups = D.accept_all([s1 + ", " + s2] if via == 1 else [s1, s2])
    if via == 0:                                   # two strings into one dictionary
        dd = DefinitionDict()
        dd.defs = dict()
        i1 = dd.check_for_definitions(HedString(s1, MINI))
        i2 = dd.check_for_definitions(HedString(s2, MINI))
        reported = len(i2)
    elif via == 1:                                 # one string holding both definitions
        dd = DefinitionDict()
        dd.defs = dict()
        i1 = []
        i2 = dd.check_for_definitions(HedString(s1 + ", " + s2, MINI))
        reported = len(i2)
    else:                                          # two dictionaries merged into a third
        a, b = DefinitionDict(), DefinitionDict()
        a.defs, b.defs = dict(), dict()
        i1 = a.check_for_definitions(HedString(s1, MINI))
        b.check_for_definitions(HedString(s2, MINI))
        dd = DefinitionDict()
        dd.defs = dict()
        dd.add_definitions([a, b])
        reported = len(dd.issues)
    if i1 != [] or not _entries_match(dd, acc):
        return False
    for ok, e, broken in D.candidates(s1 + ", " + s2 if via == 1 else s2):
        if not ok:
            return True                            # rejected for another reason: what is reported is not C09's
    return reported == dups                        # a duplicate is reported (once), nothing else is


# =============================================================================================== kernel 2
def _use_text(nm, v, form):
    """the written use: label form Def/<nm>[/<v>] or its expanded form (content as the reference gives it)"""
    nm, v = flat(nm), flat(v)
    ext = nm + ("/" + v if len(v) > 0 else "")
    if form == 0:
        return "Def/" + ext
    return D.expansion(ext, _REF_DEFS)


def _annotation(nm, v, form, pos):
    u = _use_text(nm, v, form)
    if u is None:
        return None
    if pos == 0:
        return "G, " + u + ", B"
    if pos == 1:
        return "G, (" + u + ", B)"
    if pos == 2:
        return "G, (B, (" + u + "))"
    return "Def/ef, (" + u + ", Def/AB)"


def _ops(n, o1, o2, o3):
    return [o1, o2, o3][:n]


def _trace(start, ops):
    """reference state (True = expanded, False = label form, None = as written) before each op and at the end"""
    st = [start]
    for o in ops:
        st.append(True if o == EXPAND else (False if o == SHRINK else st[-1]))
    return st


def _stale(uses, ops, first_seen, now):
    """some use was in form `first_seen` when expand_defs() first ran and is in form `now` at a later expand_defs()"""
    for f in uses:
        st = _trace(f, ops)
        first = None
        for i, o in enumerate(ops):
            if o == EXPAND:
                if first is None:
                    first = st[i]
                elif first is first_seen and st[i] is now:
                    return True
    return False


def _kf_double_expand(uses, ops):
    """known finding C09-double-expand-cycle.  `uses` = written form of every well-formed use in the annotation
    (False = Def/..., True = Def-expand group), ops = the operation sequence.  expand_defs() reaches a use that is
    already expanded and was in label form when expand_defs() first looked at it: HedTag._expanded is computed
    once and never updated, so the Def-expand group is put inside itself and str() raises RecursionError."""
    return _stale(uses, ops, False, True)


def _kf_no_reexpand(uses, ops):
    """known finding C09-shrunk-def-expand-not-reexpanded (same stale flag, other direction).  expand_defs()
    reaches a use in label form that was WRITTEN as a Def-expand group and was still expanded when expand_defs()
    first looked at it: it is skipped and stays Def/..."""
    return _stale(uses, ops, True, False)


def _pinned(name, x, lo, hi):
    """x equals the cell's value of `name` when the cell pins it (one comparison), else lo <= x <= hi"""
    c = R.env_int(name)
    if c is not None:
        return x == c
    return lo <= x <= hi


def _alg_pre(nm, v, form, pos, n, o1, o2, o3):
    # -- order matters for cost only: (1) pure integer bounds and cell pins - each failing branch is met once;
    #    (2) the texts - rejected once, before the operation values are told apart; (3) known findings, which
    #    need the values of the operations (the solver enumerates them from here on)
    if not (_pinned("VP_FORM", form, 0, 1) and _pinned("VP_NOPS", n, 0, R.M(3))):
        return False
    if not (R.env_int("VP_NLO", 0) <= n <= R.env_int("VP_NHI", 3)):
        return False
    ps = R.env_int("VP_POSSET", 1)
    if not (pos == 1 if ps == 0 else ((pos == 1 or pos == 3) if ps == 1 else 0 <= pos <= 3)):
        return False
    if not _env_is("VP_POS", pos):
        return False
    if not (_pinned("VP_O1", o1, 0, 2) if n >= 1 else o1 == 0):
        return False
    if not ((0 <= o2 <= 2) if n >= 2 else o2 == 0) or not ((0 <= o3 <= 2) if n >= 3 else o3 == 0):
        return False
    if n >= 1 and not (0 <= o1 <= 2):
        return False
    # -- texts
    if len(v) > R.N(2) or not R.scell(v) or len(nm) != 2:
        return False
    if len(v) > 1 and not _env_is("VP_WHICH", _VALUE_DEFS[0]):
        return False                     # two-character values: the first value definition only (cell layout)
    if pos != 1 and len(v) > R.env_int("VP_NV3", 0):
        return False                     # the long values go with the annotation 'G, (U, B)'
    if not R.ascii_printable(nm) or not R.ascii_printable(v) or not _no_delims(v):
        return False
    nm, v = flat(nm), flat(v)
    e = D.lookup(_REF_DEFS, nm)          # the label is one of the defined ones, in any letter case
    if e is None:
        return False
    if not e.takes_value and len(v) > R.env_int("VP_NV", 0):
        return False                     # a value on a definition that takes none: one short representative
    w = R.env_int("VP_WHICH")
    if w is not None and e is not _REF_DEFS[w]:
        return False
    if _REF_DEFS.index(e) >= R.env_int("VP_NDEFS", len(_REF_DEFS)):
        return False
    if form == 1:                        # a written Def-expand group is the result of an expansion (E2/E4)
        if e.takes_value != (len(v) > 0):
            return False
        u = _use_text(nm, v, form)
        if u is None or D.defexpand_valid(u, _REF_DEFS) is not True:
            return False
    # -- known findings
    ops = _ops(n, o1, o2, o3)
    if EXPAND in ops:
        uses = D.uses(_annotation(nm, v, form, pos), _REF_DEFS)
        if _active("C09-double-expand-cycle"):
            if _kf_double_expand(uses, ops):
                return False
        if _active("C09-shrunk-def-expand-not-reexpanded"):
            if _kf_no_reexpand(uses, ops):
                return False
    return True


def _run_ops(s, ops):
    h = HedString(s, MINI, _DD)
    a = D.Annot(s, _REF_DEFS)
    if not a.ok:
        return h.children == []
    st = _trace(None, ops)
    if str(h) != a.render(st[0]):
        return False
    for i, o in enumerate(ops):
        if o == EXPAND:
            if h.expand_defs() is not h:
                return False
        elif o == SHRINK:
            if h.shrink_defs() is not h:
                return False
        else:
            c = h.copy()
            if c is h:
                return False
            old, h = h, c
        want = a.render(st[i + 1])
        if str(h) != want:
            return False
        if o == COPY and str(old) != want:
            return False
    return True


def expand_shrink_algebra(nm: str, v: str, form: int, pos: int, n: int, o1: int, o2: int, o3: int) -> bool:
    """
    pre: _alg_pre(nm, v, form, pos, n, o1, o2, o3)
    post: _
    """
    return _run_ops(_annotation(nm, v, form, pos), _ops(n, o1, o2, o3))


# four-operation histories in which a COPY is taken after the object has been through a full expand/shrink cycle
_SEQS4 = [[EXPAND, SHRINK, COPY, EXPAND], [EXPAND, COPY, SHRINK, EXPAND], [EXPAND, SHRINK, COPY, SHRINK],
          [COPY, EXPAND, SHRINK, EXPAND], [EXPAND, SHRINK, EXPAND, COPY]]


def copy_after_cycle(nm: str, v: str, pos: int, k: int) -> bool:
    """
    pre: 0 <= k < len(_SEQS4) and _env_is("VP_K", k)
    pre: _alg_pre(nm, v, 0, pos, 0, 0, 0, 0)
    post: _
    """
    return _run_ops(_annotation(nm, v, 0, pos), _SEQS4[k])


# =============================================================================================== kernel 3
_SIBS = [["B", "G"], ["B", "C/#"], None, ["H/#"], ["G", "(B,E)"]]      # content siblings of _REF_DEFS, in order
NSHAPE3 = 8


def _expand_text(nm, v, w, shape):
    """a written Def-expand group for label nm (any case) with value v on the Def-expand tag and value w plugged
    into the content; shape picks a variation of the exact expansion"""
    nm, v, w = flat(nm), flat(v), flat(w)
    e = D.lookup(_REF_DEFS, nm)
    tag = "Def-expand/" + nm + ("/" + v if len(v) > 0 else "")
    sibs = _SIBS[_REF_DEFS.index(e)]
    if sibs is None:
        sibs = []
    sibs = [D.plug(x, w) for x in sibs]
    if shape == 1:
        sibs = sibs[::-1]                                        # content siblings in the other order
    elif shape == 3:
        sibs = sibs[:-1]                                         # a sibling missing
    elif shape == 4:
        sibs = sibs + ["E"]                                      # a sibling too many
    elif shape == 7:
        sibs = [("(E,B)" if x == "(B,E)" else x) for x in sibs]  # order inside a nested group
    content = "(" + ", ".join(sibs) + ")" if sibs else ""
    if shape == 6:
        content = ""                                             # content group missing
    parts = [tag] + ([content] if content else [])
    if shape == 2:
        parts = parts[::-1]                                      # tag after its content
    if shape == 5:
        parts = parts + ["(E)"]                                  # a second group
    return "(" + ", ".join(parts) + ")"


def _kf_defexpand_order(verdicts):
    """known finding C09-def-expand-order-sensitive (verdicts = D.defexpand_verdicts(text)): the written group IS
    the expansion up to sibling order, but not position by position in the dictionary's (sorted) order:
    _validate_def_contents compares with the order-sensitive HedGroup.__eq__ and reports DEF_EXPAND_INVALID."""
    return verdicts is not None and verdicts[0] is True and verdicts[1] is not True


def _kf_unplugged_placeholder(verdicts):
    """known finding C09-def-expand-unplugged-placeholder: the written content still carries the definition's
    literal placeholder tag (e.g. C/#) although the Def-expand tag has another value: HedTag.__eq__ falls back to
    comparing org_tag, which for the plugged tag of the expansion is still the text with '#', so it is accepted."""
    return verdicts is not None and verdicts[0] is False and verdicts[2] is True


def _dx_pre(nm, v, w, shape):
    if not (0 <= shape < NSHAPE3) or not _env_is("VP_SHAPE", shape):
        return False
    if not (R.env_int("VP_SHAPE_LO", 0) <= shape <= R.env_int("VP_SHAPE_HI", NSHAPE3)):
        return False
    if len(nm) != 2 or len(v) > R.N(1) or len(w) > R.N(1) or not R.scell(v) or not _env_is("VP_LENW", len(w)):
        return False
    if shape != 0 and (len(v) > R.env_int("VP_NV", 1) or len(w) > R.env_int("VP_NV", 1)):
        return False                     # the long values go with the exact shape
    if not (R.ascii_printable(nm) and R.ascii_printable(v) and R.ascii_printable(w)):
        return False
    if not (_no_delims(v) and _no_delims(w)):
        return False
    e = D.lookup(_REF_DEFS, flat(nm))
    if e is None:
        return False
    i = _REF_DEFS.index(e)
    if not _env_is("VP_WHICH", i) or i >= R.env_int("VP_NDEFS", len(_REF_DEFS)):
        return False
    if not e.takes_value and (len(w) > 0 or len(v) > R.env_int("VP_NV", 1)):
        return False                     # nowhere to plug w: keep one representative
    if shape == 7 and i != 4:
        return False
    if shape >= 3 and e.takes_value and flat(w) != flat(v):
        return False                     # structural variations: one value is enough
    vd = D.defexpand_verdicts(_expand_text(nm, v, w, shape), _REF_DEFS)
    if vd is None:
        return False                     # v / w changed the structure: not a Def-expand group any more
    if _active("C09-def-expand-order-sensitive"):
        if _kf_defexpand_order(vd):
            return False
    if _active("C09-def-expand-unplugged-placeholder"):
        if _kf_unplugged_placeholder(vd):
            return False
    return True


def defexpand_valid(nm: str, v: str, w: str, shape: int) -> bool:
    """
    pre: _dx_pre(nm, v, w, shape)
    post: _
    """
    text = _expand_text(nm, v, w, shape)
    h = HedString(text, MINI, _DD)
    want = D.defexpand_verdicts(text, _REF_DEFS)[0]
    if R.env_int("VP_PREEXPAND"):
        # the same object after expand_defs() (which leaves a written Def-expand group as it is): the verdict
        # must not depend on what was done to the object before
        h.expand_defs()
        if R.env_int("VP_PREEXPAND") == 2:
            h = h.copy()
    issues = _DV.validate_def_tags(h)
    if want is None:
        return True                      # differs only in the letter case of a value: the property leaves it open
    return (issues == []) == want


# =============================================================================================== registry
_T_ACC = ["hed.models.definition_dict.DefinitionDict.check_for_definitions",
          "hed.models.definition_dict.DefinitionDict._find_group",
          "hed.models.definition_dict.DefinitionDict._strip_value_placeholder",
          "hed.models.definition_dict.DefinitionDict._validate_contents",
          "hed.models.definition_dict.DefinitionDict._validate_placeholders",
          "hed.models.definition_dict.DefinitionDict._validate_name_and_context",
          "hed.models.definition_entry.DefinitionEntry.__init__",
          "hed.models.hed_string.HedString.find_top_level_tags",
          "hed.models.hed_group.HedGroup.find_tags", "hed.models.hed_group.HedGroup.get_all_tags",
          "hed.models.hed_group.HedGroup.sort", "hed.models.hed_tag.HedTag.is_takes_value_tag"]
_T_DUP = _T_ACC + ["hed.models.definition_dict.DefinitionDict.add_definitions",
                   "hed.models.definition_dict.DefinitionDict._add_definition",
                   "hed.models.definition_dict.DefinitionDict._add_definitions_from_dict"]
_T_ALG = ["hed.models.hed_string.HedString.expand_defs", "hed.models.hed_string.HedString.shrink_defs",
          "hed.models.hed_string.HedString.copy", "hed.models.hed_string.HedString.__deepcopy__",
          "hed.models.hed_tag.HedTag.expandable", "hed.models.hed_tag.HedTag.expanded",
          "hed.models.hed_tag.HedTag.replace_placeholder", "hed.models.hed_tag.HedTag.__deepcopy__",
          "hed.models.hed_tag.HedTag.short_base_tag",
          "hed.models.definition_entry.DefinitionEntry.get_definition",
          "hed.models.definition_dict.DefinitionDict.get_definition_entry",
          "hed.models.hed_group.HedGroup.replace", "hed.models.hed_group.HedGroup._replace",
          "hed.models.hed_group.HedGroup.find_def_tags", "hed.models.hed_group.HedGroup.find_tags",
          "hed.models.hed_group.HedGroup.find_placeholder_tag", "hed.models.hed_group.HedGroup.__str__"]
_T_DX = ["hed.validator.def_validator.DefValidator.validate_def_tags",
         "hed.validator.def_validator.DefValidator._validate_def_contents",
         "hed.validator.def_validator.DefValidator._report_missing_or_invalid_value",
         "hed.models.definition_entry.DefinitionEntry.get_definition",
         "hed.models.hed_group.HedGroup.__eq__", "hed.models.hed_tag.HedTag.__eq__",
         "hed.models.hed_group.HedGroup.find_def_tags"]
_STUBS = ["mini schema (vp/mini.py): 25-node tiny-name tag tree loaded by the real MediaWiki loader",
          "chx: ASCII-exact casefold()/lower() model for CrossHair strings; inputs restricted to printable ASCII",
          "chx_hash: builtin hash() interception without CrossHair's short-circuit fork",
          "chx_fmt: format()/f-string of hed model objects = their __str__ run symbolically (stock CrossHair "
          "deep-realises the object, pinning the annotation text)",
          "chx_flat: annotation text rebuilt as a flat code-point list; slices made only of concrete code points "
          "are handed to hed-python as real str (representation only)",
          "split_into_groups recompiled with `is` on characters replaced by `==` (as in C02)"]
_STUB_DICT = ["DefinitionDict.defs is replaced by dict() right after construction (under CrossHair a scan-based "
              "map; the `{}` literal created in __init__ would hash, i.e. realise, the symbolic key)"]
_OUT = ("definition sets other than the fixed five; unit-carrying placeholders beyond timeUnits; Unique/Required "
        "tags inside definitions (rejected by hed-python, not mentioned by the property); df_util column variants "
        "(pandas); def_expand_gather; non-ASCII text")


_NGROUPS = ({"VP_NLO": 0, "VP_NHI": 2}, {"VP_NOPS": 3, "VP_O1": 0}, {"VP_NOPS": 3, "VP_O1": 1},
            {"VP_NOPS": 3, "VP_O1": 2})
_VALUE_DEFS = [i for i, e in enumerate(_REF_DEFS) if e.takes_value]


def _acc_cells_quick():
    out = []
    for sfx in (0, 1):
        out.append({"VP_SFX": sfx, "VP_LEN": 1})
        for lo in (0, 4, 8):
            out.append({"VP_SFX": sfx, "VP_LEN": 2, "VP_SHAPE_LO": lo, "VP_SHAPE_HI": lo + 3})
    return out


_NODELIM_CLASSES = (3, 4, 5)      # R.DELIMS classes left when ',()' are excluded: ' ', '/', everything else


def _acc_cells_thorough():
    """(a) every printable-ASCII name of length 1..2;  (b) length 3 without ',()' (split by the class of the first
    character and by body range)"""
    out = [dict(c, VP_N=2, VP_NODELIM=0) for c in
           R.product_cells(R.int_cells("VP_SFX", 0, 1), R.str_cells(2, split1_from=2, minlen=1))]
    for sfx in (0, 1):
        for c0 in _NODELIM_CLASSES:
            for lo in (0, 4, 8):
                out.append({"VP_SFX": sfx, "VP_LEN": 3, "VP_C0": c0, "VP_SHAPE_LO": lo, "VP_SHAPE_HI": lo + 3,
                            "VP_N": 3, "VP_NODELIM": 1})
    return out


def _dup_cells_thorough():
    out = [{"VP_K": k, "VP_VIA": via, "VP_N": 2, "VP_NODELIM": 0} for k in (0, 1) for via in (0, 1, 2)]
    for via in (0, 1, 2):
        for c0 in _NODELIM_CLASSES:
            out.append({"VP_K": 0, "VP_VIA": via, "VP_LEN": 3, "VP_C0": c0, "VP_N": 3, "VP_NODELIM": 1})
    return out


def _alg_cells_quick(ndefs):
    out = []
    for w in range(ndefs):
        if w in _VALUE_DEFS:
            for form in (0, 1):
                out += [dict(c, VP_WHICH=w, VP_FORM=form) for c in _NGROUPS]
        else:
            out.append({"VP_WHICH": w, "VP_FORM": 0})
            out += [{"VP_WHICH": w, "VP_FORM": 1, "VP_NLO": 0, "VP_NHI": 2}, {"VP_WHICH": w, "VP_FORM": 1, "VP_NOPS": 3}]
    return out


def _alg_cells_thorough():
    """disjoint cover of: 5 definitions x form x v (cd: len <= 2, others: len <= 1) x ops"""
    out = []
    for w in range(len(_REF_DEFS)):
        if w in _VALUE_DEFS:
            for g in _NGROUPS:
                out.append(dict(g, VP_WHICH=w, VP_FORM=0, VP_LEN=0))
                out.append(dict(g, VP_WHICH=w, VP_FORM=0, VP_LEN=1))
                out.append(dict(g, VP_WHICH=w, VP_FORM=1, VP_LEN=1))       # a written group needs a value
                if w == _VALUE_DEFS[0]:                                    # two-character values: cd only
                    for c0 in range(len(R.DELIMS) + 1):
                        out.append(dict(g, VP_WHICH=w, VP_FORM=0, VP_LEN=2, VP_C0=c0))
                    out.append(dict(g, VP_WHICH=w, VP_FORM=1, VP_LEN=2))
        else:
            out += [dict(g, VP_WHICH=w, VP_FORM=0) for g in _NGROUPS]
            out.append({"VP_WHICH": w, "VP_FORM": 1})
    return out


def _dx_cells_quick(ndefs):
    out = []
    for w in range(ndefs):
        if w in _VALUE_DEFS:
            out += [dict(c, VP_WHICH=w) for c in ({"VP_SHAPE": 0}, {"VP_SHAPE": 1}, {"VP_SHAPE": 2},
                                                  {"VP_SHAPE_LO": 3, "VP_SHAPE_HI": 7})]
        else:
            out += [{"VP_WHICH": w, "VP_SHAPE_LO": 0, "VP_SHAPE_HI": 2}, {"VP_WHICH": w, "VP_SHAPE_LO": 3, "VP_SHAPE_HI": 7}]
    return out


def _dx_cells_thorough():
    """(a) every text incl. delimiters, v / w up to 1 character, all variations, all five definitions;
    (b) value definitions, exact variation, v / w up to 2 characters without ',()' (a cell per length pair;
        the pairs with both lengths <= 1 belong to (a))"""
    out = [dict(c, VP_N=1, VP_NODELIM=0) for c in _dx_cells_quick(len(_REF_DEFS))]
    for w in _VALUE_DEFS:
        for lv in (0, 1, 2):
            for lw in (0, 1, 2):
                if lv == 2 or lw == 2:
                    out.append({"VP_WHICH": w, "VP_SHAPE": 0, "VP_LEN": lv, "VP_LENW": lw, "VP_N": 2, "VP_NODELIM": 1})
    return out


_NAME_Q = ("every printable-ASCII name with 1 <= len(name) <= 2 that holds none of ',()' and does not start '#/'")
_NAME_T = ("every printable-ASCII name with 1 <= len(name) <= 2, and every one with len(name) = 3 that holds "
           "none of ',()' (none starting '#/')")

HARNESSES = [
    R.H("def_accept", _T_ACC,
        quick=R.tier(cells=_acc_cells_quick(), env={"VP_N": 2, "VP_NODELIM": 1}, timeout=400,
                     bound="'(Definition/' + name + ['/#'] + body + ')' for " + _NAME_Q + ", both suffix choices, "
                           "12 fixed bodies (no / plain / nested content, '#' on a value tag, on a plain tag, on "
                           "two tags, twice on one tag, inner Def / Def-expand / Definition, two groups, extra tag)"),
        thorough=R.tier(cells=_acc_cells_thorough(), env={}, timeout=900, path_timeout=60,
                        bound="the same for " + _NAME_T),
        what="DefinitionDict.check_for_definitions stores exactly the definitions the reference accepts (D1-D5): "
             "key = lower-cased label, entry name / takes_value / content (up to sibling order) as written; "
             "dd.issues stays empty",
        oracle="models/defs_ref.py candidates()/accept_all(): text-level rules D1-D6 over models/parse_ref + "
               "models/mini_rules",
        stubs=_STUBS + _STUB_DICT, outside=_OUT),
    R.H("def_duplicate", _T_DUP,
        quick=R.tier(cells=R.product_cells([{"VP_K": 0}], [{"VP_VIA": 0}, {"VP_VIA": 2}]),
                     env={"VP_N": 2, "VP_NODELIM": 1}, timeout=400,
                     bound="dictionary holding 'aB'; second definition '(Definition/' + n2 + '/#, (C/#))' for "
                           "n2 = " + _NAME_Q + "; added by a second check_for_definitions call or by merging two "
                           "dictionaries"),
        thorough=R.tier(cells=_dup_cells_thorough(), env={}, timeout=900, path_timeout=60,
                        bound="dictionary holding 'aB' or 'Q': every printable-ASCII n2 with 1 <= len(n2) <= 2; "
                              "holding 'aB': also len(n2) = 3 without ',()'; added by a second call, inside the "
                              "same string, or by merging two dictionaries"),
        what="a second definition whose label equals an accepted one case-insensitively is reported exactly once "
             "and ignored (the first entry stays untouched); any other acceptable one is added silently",
        oracle="models/defs_ref.py accept_all() (D6)", stubs=_STUBS + _STUB_DICT, outside=_OUT),
    R.H("copy_after_cycle", _T_ALG,
        quick=R.tier(cells=[{"VP_WHICH": w, "VP_K": k} for w in range(3) for k in range(len(_SEQS4))],
                     env={"VP_N": 1, "VP_M": 3, "VP_NDEFS": 3, "VP_POSSET": 1, "VP_NODELIM": 1}, timeout=400,
                     bound="as expand_shrink_algebra (quick) with U = Def/<nm>[/<v>], for five fixed histories of four "
                           "operations in which a copy is taken after an expand/shrink cycle"),
        what="a copy taken after the object went through expand and shrink behaves like a fresh object: expanding or "
             "shrinking the copy gives the reference rendering and leaves the source as it was",
        oracle="models/defs_ref.py Annot.render", stubs=_STUBS,
        outside="longer histories"),
    R.H("expand_shrink_algebra", _T_ALG,
        quick=R.tier(cells=_alg_cells_quick(3),
                     env={"VP_N": 1, "VP_M": 3, "VP_NDEFS": 3, "VP_POSSET": 1, "VP_NODELIM": 1}, timeout=400,
                     bound="'G, (U, B)' with U = Def/<nm>[/<v>] or its written Def-expand group, nm = any "
                           "letter-case spelling of ab | cd | ef, every printable-ASCII v (none of ',()') with "
                           "len(v) <= 1 for cd and v = '' for ab, ef; plus 'Def/ef, (U, Def/AB)' with v = ''; "
                           "every sequence of <= 3 operations over {expand_defs, shrink_defs, copy}"),
        thorough=R.tier(cells=_alg_cells_thorough(),
                        env={"VP_N": 2, "VP_M": 3, "VP_POSSET": 2, "VP_NV": 1}, timeout=900, path_timeout=60,
                        bound="'G, (U, B)' for all five definitions, every printable-ASCII v with len(v) <= 2 "
                              "(cd) / <= 1 (others); plus U at top level, at depth 2 and next to two other uses "
                              "with v = ''; every sequence of <= 3 operations"),
        what="after every operation str() terminates and equals the reference rendering (every use expanded after "
             "expand_defs, every use in label form after shrink_defs, unchanged by copy; expansion = "
             "(Def-expand/<label>[/<v>], content with '#' replaced by v)); hence expand.expand = expand and "
             "shrink.expand = identity; a copy is a different object and leaves its source unchanged",
        oracle="models/defs_ref.py Annot.render() (E1-E3)", stubs=_STUBS, outside=_OUT),
    R.H("defexpand_valid", _T_DX,
        quick=R.tier(cells=_dx_cells_quick(3) + [dict(c, VP_PREEXPAND=1) for c in _dx_cells_quick(3)],
                     env={"VP_N": 1, "VP_NDEFS": 3, "VP_NODELIM": 1}, timeout=400,
                     bound="(validated fresh, and - VP_PREEXPAND cells - after expand_defs() on the same object) "
                           "written groups (Def-expand/<nm>[/<v>], content[<w>]) in 7 variations (exact, content "
                           "order reversed, tag after content, sibling missing / extra, second group, no content); "
                           "nm = any letter-case spelling of ab | cd | ef; printable-ASCII v, w (none of ',()') "
                           "with len <= 1"),
        thorough=R.tier(cells=_dx_cells_thorough() + [dict(c, VP_PREEXPAND=2) for c in _dx_cells_quick(3)],
                        env={"VP_NV": 2}, timeout=900, path_timeout=60,
                        bound="(also: after expand_defs() and copy()) all five definitions (plus order inside a nested group), every printable-ASCII "
                              "v, w with len <= 1 in all variations; value definitions, exact variation: also "
                              "every v, w with len <= 2 holding none of ',()'"),
        what="DefValidator.validate_def_tags reports nothing for a written Def-expand group iff its content "
             "equals the expansion of its own label/value up to sibling order at every level (undecided, hence "
             "not asserted, when they differ only in the letter case of a value)",
        oracle="models/defs_ref.py defexpand_verdicts() (E4)", stubs=_STUBS, outside=_OUT),
]
