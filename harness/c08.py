"""C08 — sidecar validation is total and flags each structural fault.

Documents are built inside the harness from a few symbolic scalars plus small integer 'shape selectors'
(value kinds), so that every counterexample is a call with literal arguments.  JSON decoding is stubbed
(vp/sidecar_stub.py); everything from `Sidecar.__init__` on is hed-python's own code.
"""
import os

from vp import reg as R
from vp import chx, chx_hash, sidecar_stub, astpatch
from vp.mini import MINI
from vp.stubs import NOSCHEMA
from models import sidecar_ref as M
from hed.models.column_metadata import ColumnMetadata, ColumnType
from hed.models.hed_string import HedString
from hed.validator.sidecar_validator import SidecarValidator
from hed.errors.error_reporter import ErrorHandler

astpatch.is_to_eq(HedString, "split_into_groups")   # `is '('` -> `== '('` (see vp/astpatch.py), for pound_count
chx.install()               # ASCII-exact casefold/lower model (pound_count carries pre: ascii_printable)
chx_hash.install()          # builtin hash() without CrossHair's short-circuit fork (see vp/chx_hash.py)
_SV = SidecarValidator(MINI)
_SV0 = SidecarValidator(NOSCHEMA)


def _active(fid):
    """a finding's input class is excluded only while known_findings.json lists the id with status 'known'"""
    return R.known_active(fid)


# ------------------------------------------------------------------ JSON values from shape selectors
# value kinds: 0 null, 1 false, 2 true, 3 number i, 4 string s, 5 [], 6 [child], 7 {}, 8 {key: child},
#              9 {key: child, "z": child}
_HAS_CHILD = (6, 8, 9)
_S_ALPHABET = "{}a#"
_KEY_ALPHABET = "ab"


class _OutOfBound(Exception):
    pass


class _Build:
    """Builds the document top-down and lazily: a selector / string / number is only inspected (and only then
    constrained to its bound) when the kinds chosen above it actually use it, so that documents which do not
    use an argument are one path, not one path per value of the unused argument.  _OutOfBound is raised as
    soon as a *used* argument is outside its bound or cell (the precondition then rejects the call) -- before
    the value can be hashed as a dict key, which would realise it.

    Bounds (env): VP_N max len of s (default 2), VP_M max len of the column name (default 1), VP_SALPHA
    alphabet of s ("any" = unrestricted), VP_KALPHA alphabet of `key` and `name` (default "ab"), VP_KTOP / VP_KE / VP_KV / VP_KW the admissible kinds (a string of
    digits) of the top-level value, entry, HED-level value and category-level value in this cell.
    `early` = finding classes rejected as soon as the kinds decide them (same verdict as the predicate on the
    finished document, evaluated before the deeper levels are enumerated).
    """

    def __init__(self, name_hed, name, k1_hed, k2_na, key, s, i, e, v, w, early=()):
        self.name_hed, self.name, self.k1_hed, self.k2_na = name_hed, name, k1_hed, k2_na
        self.key, self.s, self.i, self.e, self.v, self.w = key, s, i, e, v, w
        self.early = early

    def string(self):
        s = self.s
        if not len(s) <= R.N(2):
            raise _OutOfBound()
        if not R.scell(s, _S_ALPHABET):
            raise _OutOfBound()
        alpha = os.environ.get("VP_SALPHA", _S_ALPHABET)
        if alpha != "any" and not R.over(s, alpha):
            raise _OutOfBound()
        return s

    def number(self):
        if not (-1 <= self.i <= 1):
            raise _OutOfBound()
        return self.i

    def keystr(self):
        k = self.key
        if not (len(k) <= 1 and R.over(k, os.environ.get("VP_KALPHA", _KEY_ALPHABET))):
            raise _OutOfBound()
        return k

    def colname(self):
        if self.name_hed:
            return "HED"
        n = self.name
        if not (1 <= len(n) <= R.M(1) and R.over(n, os.environ.get("VP_KALPHA", _KEY_ALPHABET))):
            raise _OutOfBound()
        return n

    def val(self, sel, allowed, key_fn, child_fn):
        ok = False
        for ch in allowed:
            if sel == int(ch):
                ok = True
        if not ok:
            raise _OutOfBound()
        if sel == 0:
            return None
        if sel == 1:
            return False
        if sel == 2:
            return True
        if sel == 3:
            return self.number()
        if sel == 4:
            return self.string()
        if sel == 5:
            return []
        if sel == 7:
            return {}
        c = child_fn()
        if sel == 6:
            return [c]
        if sel == 8:
            return {key_fn(): c}
        return {key_fn(): c, "z": c}

    def W(self):
        return self.val(self.w, os.environ.get("VP_KW", "0123456789"), lambda: "q", self.string)

    def V(self):
        return self.val(self.v, os.environ.get("VP_KV", "0123456789"),
                        lambda: "n/a" if self.k2_na else self.keystr(), self.W)

    def E(self):
        if "entry" in self.early and not (self.e == 7 or self.e == 8 or self.e == 9):
            raise _OutOfBound()
        return self.val(self.e, os.environ.get("VP_KE", "0123456789"),
                        lambda: "HED" if self.k1_hed else self.keystr(), self.V)

    def E_under_array(self):
        # a top-level array holds one entry whose own children are scalars or empty containers
        return self.val(self.e, os.environ.get("VP_KE", "0123456789"),
                        lambda: "HED" if self.k1_hed else self.keystr(),
                        lambda: self.val(self.v, "0123457", None, None))

    def doc(self, top):
        if "top" in self.early and not (top == 7 or top == 8 or top == 9):
            raise _OutOfBound()
        if top == 6:
            return self.val(top, os.environ.get("VP_KTOP", "0123456789"), None, self.E_under_array)
        return self.val(top, os.environ.get("VP_KTOP", "0123456789"), self.colname, self.E)


def _doc(top, name_hed, name, e, k1_hed, v, k2_na, w, key, s, i, early=()):
    """JSON document to depth 3: top-level value (kind `top`) holding entry E (kind `e`) under the column
    name ("HED" if name_hed else `name`), holding V (kind `v`) under "HED" (k1_hed) or `key`, holding W
    (kind `w`) under "n/a" (k2_na) or `key`; W's own child is the string s under key "q".
    Returns (document, every used argument is inside its bound and cell)."""
    b = _Build(name_hed, name, k1_hed, k2_na, key, s, i, e, v, w, early)
    try:
        return b.doc(top), True
    except _OutOfBound:
        return None, False


def _concrete(doc):
    """Realise the string of every value column, i.e. a string stored directly under "HED" (under CrossHair
    only; identity when replayed concretely).  Such a string reaches `pd.Series(text, dtype=str)`; pandas' C
    type checks do not take CrossHair's symbolic string for a `str` and would build one row per character --
    an artefact of the engine, not behaviour of hed-python.  (Strings inside a category map are converted by
    pandas itself.)  The realised strings are enumerated by the solver over their stated alphabet."""
    from crosshair.tracers import is_tracing
    if not is_tracing() or not isinstance(doc, dict):
        return doc
    from crosshair.core import realize
    out = {}
    for k in doc:
        entry = doc[k]
        if isinstance(entry, dict) and "HED" in entry and isinstance(entry["HED"], str):
            entry = {k2: (realize(entry[k2]) if k2 == "HED" else entry[k2]) for k2 in entry}
        out[k] = entry
    return out


def _kinds(**kw):
    return dict(kw)


# ------------------------------------------------------------------ known findings (genuine, see report)
def _kf_toplevel(doc):
    """C08-toplevel-not-object: the decoded document is not a JSON object.  Sidecar.load_sidecar_files does
    `merged_dict.update(loaded_json)`: TypeError for null/true/false/number, ValueError/TypeError for strings
    and arrays (the only non-objects it does not raise on are those dict.update() can swallow: "", [], and
    arrays of 2-item things such as ["ab"], which are silently re-read as {"a": "b"})."""
    return not isinstance(doc, dict)


def _kf_entry_not_object(doc):
    """C08-entry-not-object: some column entry is not an object (string, number, true/false, null, array):
    ColumnMetadata.hed_dict calls `.get` on it -> AttributeError"""
    if not isinstance(doc, dict):
        return False
    for k in doc:
        if not isinstance(doc[k], dict):
            return True
    return False


def _kf_unknown_ref_no_pound(doc):
    """C08-unknown-ref-without-pound: a value column whose string has no '#' (so _validate_refs skips it)
    contains a reference {x}, x matching [A-Za-z0-9_-]+, to a name that is neither a column of the sidecar nor
    "HED": SidecarValidator.validate indexes refs_strings[x] -> KeyError"""
    if not isinstance(doc, dict):
        return False
    for k in doc:
        entry = doc[k]
        if M.kind(entry) == "value":
            text = entry["HED"]
            if M.count_char(text, "#") == 0:
                for r in M.refs_of(text):
                    if M.is_ref_name(r) and r != "HED" and r not in doc:
                        return True
    return False


def _kf_ref_not_a_name(doc):
    """C08-ref-name-outside-pattern: an annotation string holds a well-formed reference {x} whose name x is
    empty or has a character outside [A-Za-z0-9_-] (e.g. "{}", "{#}", "{a b}"): _validate_refs' regular
    expression does not see it and remove_refs() deletes it before the string is checked -> no issue at all"""
    if not isinstance(doc, dict):
        return False
    for k in doc:
        for ck, text in M.strings_of(doc[k]):
            for r in M.refs_of(text):
                if not M.is_ref_name(r):
                    return True
    return False


def _early():
    out = []
    if _active("C08-toplevel-not-object"):
        out.append("top")
    if _active("C08-entry-not-object"):
        out.append("entry")
    return out


def _excluded(doc):
    """`R.known(id, predicate(doc))` for each finding; predicates only evaluated while the id is listed"""
    if _active("C08-toplevel-not-object") and R.known("C08-toplevel-not-object", _kf_toplevel(doc)):
        return True
    if _active("C08-entry-not-object") and R.known("C08-entry-not-object", _kf_entry_not_object(doc)):
        return True
    if _active("C08-unknown-ref-without-pound") and R.known("C08-unknown-ref-without-pound",
                                                            _kf_unknown_ref_no_pound(doc)):
        return True
    if _active("C08-ref-name-outside-pattern") and R.known("C08-ref-name-outside-pattern", _kf_ref_not_a_name(doc)):
        return True
    return False


def _admissible(top, name_hed, name, e, k1_hed, v, k2_na, w, key, s, i):
    d, ok = _doc(top, name_hed, name, e, k1_hed, v, k2_na, w, key, s, i, _early())
    if not ok:
        return False
    return not _excluded(d)


def _oracle_structure(doc, issues):
    """structure stage only (validate_structure looks at types and keys, never inside the strings): no
    structure code unless a structure rule is broken; exactly one structure rule broken -> its code"""
    if M.no_claim_structure(doc):
        return True
    sf = M.structure_faults(doc)
    if sf == []:
        return not M.any_in([i["code"] for i in issues], M.STRUCTURE_CODES)
    codes = M.error_codes(issues)
    if len(sf) == 1:
        return M.any_in(codes, M.CODES[sf[0]])
    return len(codes) > 0


def _oracle_full(doc, issues):
    """the property's second sentence on the result of the whole validation"""
    if M.no_claim_structure(doc):
        return True
    codes = M.error_codes(issues)
    sf = M.structure_faults(doc)
    if sf == [] and M.any_in([i["code"] for i in issues], M.STRUCTURE_CODES):
        return False                      # a structure code although every structure rule is obeyed
    faults = sf + M.pound_faults(doc) + M.ref_faults(doc)
    if len(faults) == 1:
        return M.any_in(codes, M.CODES[faults[0]])       # exactly one rule broken: that rule's code
    if len(faults) > 1:
        return len(codes) > 0                            # several rules broken: at least not accepted
    return True


# ------------------------------------------------------------------ 1: totality (+ rule codes) on any document
def total_doc(top: int, name_hed: bool, name: str, e: int, k1_hed: bool, v: int, k2_na: bool, w: int, key: str,
              s: str, i: int) -> bool:
    """
    pre: _admissible(top, name_hed, name, e, k1_hed, v, k2_na, w, key, s, i)
    post: _
    """
    doc, ok = _doc(top, name_hed, name, e, k1_hed, v, k2_na, w, key, s, i)
    if not ok:
        return True                       # outside the bound/cell (only when called by hand without the cell's env)
    doc = _concrete(doc)
    if not isinstance(doc, dict):
        # a document whose top level is not a JSON object is not a sidecar: it must be refused at load with the
        # documented file error (HedFileError), never with a TypeError/ValueError and never silently re-read
        from hed.errors.exceptions import HedFileError
        try:
            sidecar_stub.load(doc)
        except HedFileError:
            return True
        return False
    sc = sidecar_stub.load(doc)
    issues = sc.validate(MINI)
    if not isinstance(issues, list):
        return False
    for issue in issues:
        if not isinstance(issue, dict) or "code" not in issue or "severity" not in issue:
            return False
    if isinstance(doc, dict):
        return _oracle_full(doc, issues)
    return True


# ------------------------------------------------------------------ 2: structure stage, strings fully symbolic
def structure_rules(top: int, name_hed: bool, name: str, e: int, k1_hed: bool, v: int, k2_na: bool, w: int,
                    key: str, s: str, i: int) -> bool:
    """
    pre: top == 8 or top == 9
    pre: _doc(top, name_hed, name, e, k1_hed, v, k2_na, w, key, s, i)[1]
    post: _
    """
    doc, _ = _doc(top, name_hed, name, e, k1_hed, v, k2_na, w, key, s, i)
    sc = sidecar_stub.load(doc)
    issues = _SV.validate_structure(sc, ErrorHandler())
    if not isinstance(issues, list):
        return False
    return _oracle_structure(doc, issues)


# ------------------------------------------------------------------ 3: column kind detection
_KIND = {"ignore": ColumnType.Ignore, "value": ColumnType.Value, "categorical": ColumnType.Categorical,
         "badtype": None}


def column_kind(e: int, k1_hed: bool, v: int, k2_na: bool, w: int, key: str, s: str, i: int) -> bool:
    """
    pre: _doc(8, False, "a", e, k1_hed, v, k2_na, w, key, s, i)[1]
    post: _
    """
    doc, _ = _doc(8, False, "a", e, k1_hed, v, k2_na, w, key, s, i)
    entry = doc["a"]
    k = M.kind(entry)
    loose = ColumnMetadata._detect_column_type(entry, basic_validation=False)
    if loose != _KIND[k]:
        return False
    strict = ColumnMetadata._detect_column_type(entry, basic_validation=True)
    want = _KIND[k]
    if k == "value" and M.count_char(entry["HED"], "#") == 0:
        want = None          # a value column needs a '#'
    if k == "categorical":
        for ck in entry["HED"]:
            if not isinstance(entry["HED"][ck], str):
                want = None  # string-valued maps only
    if strict != want:
        return False
    n, err = ColumnMetadata.expected_pound_sign_count(loose)
    if k == "value" and n != 1:
        return False
    if k != "value" and n != 0:
        return False
    if isinstance(entry, dict):
        cm = ColumnMetadata(name="a", source=doc)
        if cm.source_dict is not entry:
            return False
        hd = cm.hed_dict
        if k == "ignore":
            if hd != {}:
                return False
        elif hd is not entry["HED"]:
            return False
    return True


# ------------------------------------------------------------------ 4: reference rules on two columns
def _col(kind, text, pound):
    """column 'a': 0 value, 1 one category, 2 two categories (second one plain)"""
    t = text + "#" if pound else text
    if kind == 0:
        return {"HED": t}
    if kind == 1:
        return {"HED": {"x": t}}
    return {"HED": {"x": t, "y": "a"}}


def _col_b(kind, r):
    """column 'b': 0 absent, 1 {} (no HED), 2 value "a#", 3 value "{r}#", 4 category "a", 5 category "{r}" """
    if kind == 1:
        return {}
    if kind == 2:
        return {"HED": "a#"}
    if kind == 3:
        return {"HED": "{" + r + "}#"}
    if kind == 4:
        return {"HED": {"x": "a"}}
    return {"HED": {"x": "{" + r + "}"}}


def _bname():
    """name of the second column: 'b', or 'B' in the VP_UPPER cells (column names may contain upper-case letters)"""
    return "B" if R.env_int("VP_UPPER") else "b"


def _two(ka, s, pound, kb, r):
    doc = {"a": _col(ka, s, pound)}
    if kb != 0:
        doc[_bname()] = _col_b(kb, r)
    return doc


def _ref_pre(ka, s, pound, kb, r):
    if not (0 <= ka <= 2 and 0 <= kb <= 5):
        return False
    t = R.env_int("VP_KA")
    if t is not None and ka != t:
        return False
    t = R.env_int("VP_KB")
    if t is not None and kb != t:
        return False
    ok = False
    for ch in os.environ.get("VP_KBSET", "012345"):
        if kb == int(ch):
            ok = True
    if not ok:
        return False
    alpha = os.environ.get("VP_SALPHA", "{}ab")
    if R.env_int("VP_UPPER"):
        alpha = alpha.replace("b", "B")
    if not (len(s) <= R.N(3) and R.scell(s, "{}a" + _bname()) and R.over(s, alpha)):
        return False
    if os.environ.get("VP_POUND") == "tie" and pound != (ka == 0):
        return False       # quick tier: '#' appended exactly where the '#' rule wants it
    if kb == 3 or kb == 5:
        # the column referenced from b: a, b (mutual / self reference) or HED (b then holds a legal reference of
        # its own, so that a reference TO b is a nested reference whatever the order of the columns)
        if not ((len(r) == 1 and R.over(r, "a" + _bname())) or r == "HED"):
            return False
    doc = _two(ka, s, pound, kb, r if (kb == 3 or kb == 5) else "a")
    if _active("C08-ref-name-outside-pattern") and R.known("C08-ref-name-outside-pattern", _kf_ref_not_a_name(doc)):
        return False
    return True


def ref_rules(ka: int, s: str, pound: bool, kb: int, r: str) -> bool:
    """
    pre: _ref_pre(ka, s, pound, kb, r)
    post: _
    """
    doc = _concrete(_two(ka, s, pound, kb, r if (kb == 3 or kb == 5) else "a"))
    sc = sidecar_stub.load(doc)
    eh = ErrorHandler()
    issues = _SV.validate_structure(sc, eh)
    issues += _SV._validate_refs(sc, eh)        # what validate() returns at its early exit
    if not isinstance(issues, list):
        return False
    allcodes = [i["code"] for i in issues]
    rf = M.ref_faults(doc)
    if rf == [] and M.BRACES_INVALID in allcodes:
        return False                            # a reference issue although every reference rule is obeyed
    if rf != [] and M.structure_faults(doc) == [] and M.pound_faults(doc) == []:
        return M.BRACES_INVALID in M.error_codes(issues)
    return True


# ------------------------------------------------------------------ 5: brace scanner
def braces_scan(s: str) -> bool:
    """
    pre: len(s) <= R.N(5)
    pre: R.scell(s, "{}")
    post: _
    """
    got = SidecarValidator._find_non_matching_braces(s)
    if (got == []) != M.braces_ok(s):
        return False
    return sorted(got) == M.brace_faults(s)


# ------------------------------------------------------------------ 6: '#' count rule
def pound_count(s: str, kind: int) -> bool:
    """
    pre: len(s) <= R.N(3)
    pre: R.scell(s, "#,()")
    pre: R.ascii_printable(s)
    pre: 0 <= kind <= 2
    post: _
    """
    ctype = (ColumnType.Value, ColumnType.Categorical, ColumnType.HEDTags)[kind]
    hs = HedString(s, NOSCHEMA)
    before = str(hs)
    issues = _SV0._validate_pound_sign_count(hs, ctype)
    if str(hs) != before:
        return False                              # the caller's string must not be modified
    want = 1 if kind == 0 else 0
    n = M.count_char(before, "#")
    if n == want:
        return issues == []
    return len(issues) == 1 and issues[0]["code"] == M.PLACEHOLDER_INVALID and issues[0]["severity"] == 1


# ------------------------------------------------------------------ registry
_SC = "hed.models.sidecar.Sidecar."
_SVN = "hed.validator.sidecar_validator.SidecarValidator."
_CM = "hed.models.column_metadata.ColumnMetadata."
_T_LOAD = [_SC + "__init__", _SC + "load_sidecar_files", _SC + "load_sidecar_file", _SC + "_load_json_file"]
_T_STRUCT = [_SVN + "validate_structure", _SVN + "_validate_column_structure", _SVN + "_validate_categorical_column",
             _SVN + "_check_for_key", _CM + "_detect_column_type"]
_T_REFS = [_SVN + "_validate_refs", _SVN + "_find_non_matching_braces", _SC + "column_data", _SC + "all_hed_columns",
           _SC + "__iter__", _CM + "hed_dict", _CM + "source_dict", _CM + "get_hed_strings"]
_T_TOTAL = _T_LOAD + [_SC + "validate", _SVN + "validate"] + _T_STRUCT + _T_REFS + [
    _SVN + "_validate_pound_sign_count", _CM + "expected_pound_sign_count", _CM + "_get_unvalidated_data",
    _SC + "get_def_dict", _SC + "extract_definitions", _SC + "get_column_refs"]

_STUBS = ["JSON decoder stub (vp/sidecar_stub.py): json.load returns the decoded document carried by the fake file; "
          "everything from Sidecar.__init__ on is /repo code",
          "vp/chx_hash.py: CrossHair's interception of builtin hash() without its short-circuit fork"]
_MINI = "mini schema (vp/mini.py) stands for the schema"
_REAL = ("strings that reach pandas (ColumnMetadata.get_hed_strings builds a pd.Series) and dict keys are realised: "
         "those arguments are enumerated by the solver over the stated alphabet, not kept symbolic")


def _total_cells(n_val, kmax, kalpha):
    """disjoint cover of the documents of total_doc; every cell keeps at least one document outside every
    known-finding class (so it is not vacuous while exclusions are active).  Cells whose strings are looked
    at by the validator (value column string, category strings) always use column names / keys over "ab" so
    that references to the own column, to another name and to no column all occur; the other cells use
    `kalpha`."""
    K = "0123456789"[:kmax + 1]
    cont = "".join(c for c in "689" if c in K)
    ab = {"VP_KALPHA": "ab"}
    ka = {"VP_KALPHA": kalpha}
    cells = [
        # not an object, the empty object, and objects whose single entry is not an object or is {}
        dict(ka, VP_KTOP="01234567", VP_KE=K, VP_KW=K),
        dict(ka, VP_KTOP="8", VP_KE="01234567", VP_KV=K, VP_KW=K),
        # {name: {k: V}}: V scalar / empty container
        dict(ka, VP_KTOP="8", VP_KE="8", VP_KV="012357"),
        # V = [W]
        dict(ka, VP_KTOP="8", VP_KE="8", VP_KV="6", VP_KW=K),
    ]
    # V = string (value column when k == "HED"): by length and first character, up to n_val characters
    for c in R.str_cells(n_val, split1_from=3, nclass=4):
        cells.append(dict(ab, VP_KTOP="8", VP_KE="8", VP_KV="4", VP_N=n_val, **c))
    # V = {k2: W} (categorical column when k == "HED"); W scalar-ish / string / container of string
    for kv in [c for c in "89" if c in K]:
        cells.append(dict(ka, VP_KTOP="8", VP_KE="8", VP_KV=kv, VP_KW="012357"))
        for c in R.str_cells(2, split1_from=2, nclass=4):
            cells.append(dict(ab, VP_KTOP="8", VP_KE="8", VP_KV=kv, VP_KW="4", **c))
        cells.append(dict(ka, VP_KTOP="8", VP_KE="8", VP_KV=kv, VP_KW=cont))
    if kmax >= 9:
        # two-key entries {k: V, "z": V} and two-column documents {name: E, "z": E}
        for top, es in (("8", "9"), ("9", "89")):
            if top == "9":
                cells.append(dict(ka, VP_KTOP="9", VP_KE="01234567"))
            cells.append(dict(ka, VP_KTOP=top, VP_KE=es, VP_KV="0123567"))
            for c in R.str_cells(n_val, split1_from=2, nclass=4):
                cells.append(dict(ab, VP_KTOP=top, VP_KE=es, VP_KV="4", VP_N=n_val, **c))
            for kv in "89":
                cells.append(dict(ka, VP_KTOP=top, VP_KE=es, VP_KV=kv, VP_KW="012357" + cont))
                for c in R.str_cells(2, split1_from=2, nclass=4):
                    cells.append(dict(ab, VP_KTOP=top, VP_KE=es, VP_KV=kv, VP_KW="4", **c))
    return cells


def _struct_cells(full):
    """full: also two-key entries {k: V, "z": V} and two-column documents {name: E, "z": E}"""
    cells = []
    for top in (["8", "9"] if full else ["8"]):
        cells.append(_kinds(VP_KTOP=top, VP_KE="01234567"))
        for e in ("89" if full else "8"):
            cells.append(_kinds(VP_KTOP=top, VP_KE=e, VP_KV="01234567"))
            for v in "89":
                cells.append(_kinds(VP_KTOP=top, VP_KE=e, VP_KV=v, VP_KW="0123457"))
                cells.append(_kinds(VP_KTOP=top, VP_KE=e, VP_KV=v, VP_KW="689"))
    return cells


def _ref_str_cells(n):
    """cells of the text s of ref_rules; while the known finding C08-ref-name-outside-pattern is listed, the cell of
    the 4-character texts beginning '{}' holds nothing but excluded inputs and is left out (it comes back by itself
    when the finding is no longer listed as known)"""
    cells = R.str_cells(n, split1_from=2, split2_from=4, nclass=4)
    if R.known_active("C08-ref-name-outside-pattern"):
        cells = [c for c in cells if not (c.get("VP_LEN") == 4 and c.get("VP_C0") == 0 and c.get("VP_C1") == 1)]
    return cells


HARNESSES = [
    R.H("total_doc", _T_TOTAL,
        quick=R.tier(cells=_total_cells(3, 8, "a"), env={"VP_N": 2, "VP_M": 1}, timeout=300,
                     bound="every JSON document to depth 3 with containers of <= 1 item: strings <= 2 chars over "
                           "'{}a#' (<= 3 chars for the HED string of a value column), numbers -1..1, keys in "
                           "{HED, n/a, '', a, b}, column name in {HED, a, b}"),
        thorough=R.tier(cells=_total_cells(3, 9, "ab"), env={"VP_N": 2, "VP_M": 1}, timeout=1100, path_timeout=60,
                        bound="as quick plus two-key objects {k: x, 'z': x} at the entry and category level and "
                              "two-column documents {name: E, 'z': E}"),
        what="Sidecar(<decoded document>).validate(schema) returns a list of issue dictionaries for every "
             "document (any exception is a counterexample); the issues contain a structure code only if a "
             "structure rule is broken; a document breaking exactly one rule (type / HED or n/a key / '#' count / "
             "reference) carries that rule's code with error severity; one breaking several is not accepted",
        oracle="models/sidecar_ref.py (rule classes from the property text, codes per class)",
        stubs=_STUBS + [_MINI, _REAL],
        outside="validity of the annotation strings themselves (C01); documents deeper than 3 or strings longer "
                "than the bound; a top-level array is explored to depth 2 only"),
    R.H("structure_rules", _T_LOAD + _T_STRUCT,
        quick=R.tier(cells=_struct_cells(False), env={"VP_N": 3, "VP_M": 1, "VP_SALPHA": "any", "VP_KALPHA": "a"},
                     timeout=170,
                     bound="every one-column object to depth 3 (two-key objects below the entry level included), "
                           "strings: any Unicode text <= 3 chars, keys in {HED, n/a, '', a, z, q}, column name in "
                           "{HED, a}"),
        thorough=R.tier(cells=_struct_cells(True), env={"VP_N": 5, "VP_M": 1, "VP_SALPHA": "any"}, timeout=1100,
                        bound="as quick plus two-key entries {k: V, 'z': V} and two-column objects {name: E, 'z': E}, "
                              "strings <= 5 chars, keys and column names over 'ab'"),
        what="validate_structure never raises and reports: no structure code when every structure rule holds; "
             "the rule's code (error severity) when exactly one structure rule is broken",
        oracle="models/sidecar_ref.py structure_faults / CODES",
        stubs=_STUBS[:1] + ["keys are realised (solver-enumerated over their alphabet); strings stay symbolic"],
        outside="the '#' and reference rules (other harnesses)"),
    R.H("column_kind", [_CM + "_detect_column_type", _CM + "expected_pound_sign_count", _CM + "hed_dict",
                        _CM + "source_dict", _CM + "__init__"],
        quick=R.tier(cells=[_kinds(VP_KE="01234567"), _kinds(VP_KE="8"), _kinds(VP_KE="9")],
                     env={"VP_N": 3, "VP_SALPHA": "any", "VP_KALPHA": "a"}, timeout=170,
                     bound="every entry value to depth 2 below it, strings: any Unicode text <= 3 chars"),
        thorough=R.tier(cells=[_kinds(VP_KE="01234567"), _kinds(VP_KE="8"), _kinds(VP_KE="9")],
                        env={"VP_N": 5, "VP_SALPHA": "any"}, timeout=1100, bound="as quick, strings <= 5 chars"),
        what="_detect_column_type agrees with the reference kind for every entry type (never raises), with and "
             "without basic validation; expected '#' count is 1 for value columns else 0; hed_dict/source_dict "
             "return the entry's own objects",
        oracle="models/sidecar_ref.py kind()", stubs=[], outside="non-object entries in hed_dict (known finding)"),
    R.H("ref_rules", _T_LOAD + _T_REFS + [_SVN + "validate_structure"],
        quick=R.tier(cells=R.product_cells(R.int_cells("VP_KA", 0, 1), R.str_cells(3, split1_from=3, nclass=4),
                                           R.int_cells("VP_UPPER", 0, 1)),
                     env={"VP_N": 3, "VP_KBSET": "0235", "VP_POUND": "tie"}, timeout=300,
                     bound="column a = value with text s+'#' / 1 category with text s (s <= 3 chars over '{}ab'), "
                           "column b (named 'b', or 'B' in the VP_UPPER cells) in {absent, value 'a#', value '{r}#', "
                           "category '{r}'} with r in {a, b, HED}"),
        thorough=R.tier(cells=R.product_cells(R.int_cells("VP_KA", 0, 2),
                                              _ref_str_cells(4),
                                              R.int_cells("VP_UPPER", 0, 1)),
                        env={"VP_N": 4}, timeout=1100,
                        bound="as quick with s <= 4 chars, '#' appended or not for every kind of column a, "
                              "column a also with 2 categories, column b also {} (no HED) and category 'a'"),
        what="validate_structure + _validate_refs (validate()'s early-exit result) never raise; no "
             "SIDECAR_BRACES_INVALID when every reference rule holds; SIDECAR_BRACES_INVALID with error severity "
             "when a reference rule (balance/nesting, unknown column, self reference, nested reference) is the "
             "only kind of rule broken",
        oracle="models/sidecar_ref.py ref_faults", stubs=_STUBS + [_MINI, _REAL],
        outside="references whose name is empty or outside [A-Za-z0-9_-] while that finding is listed"),
    R.H("braces_scan", [_SVN + "_find_non_matching_braces"],
        quick=R.tier(cells=R.str_cells(5, split1_from=4, nclass=3), env={"VP_N": 5}, timeout=170,
                     bound="every Unicode string s with len(s) <= 5"),
        thorough=R.tier(cells=R.str_cells(7, split1_from=4, split2_from=6, nclass=3), env={"VP_N": 7},
                        timeout=1100, bound="every Unicode string s with len(s) <= 7"),
        what="the scanner returns [] iff braces are balanced and unnested, and otherwise exactly the offending "
             "positions", oracle="models/sidecar_ref.py braces_ok / brace_faults (stated per position)"),
    R.H("pound_count", [_SVN + "_validate_pound_sign_count", _CM + "expected_pound_sign_count"],
        quick=R.tier(cells=R.str_cells(3, split1_from=3, nclass=5), env={"VP_N": 3}, timeout=170,
                     bound="every printable-ASCII string s with len(s) <= 3, column type in {value, categorical, "
                           "HED tags}"),
        thorough=R.tier(cells=R.str_cells(4, split1_from=3, split2_from=4, nclass=5), env={"VP_N": 4},
                        timeout=1100, bound="as quick with len(s) <= 4"),
        what="PLACEHOLDER_INVALID (error) iff the number of '#' in the printed string differs from 1 (value) / 0 "
             "(categorical, HED tags); the caller's string is left unchanged",
        oracle="count of '#'", stubs=["NoSchema stub: tags are not looked up", "chx: ASCII-exact casefold model (pre: printable ASCII)"],
        outside="strings containing Definition / Def-expand groups (need >= 10 characters)"),
]
