"""C08 — sidecar validation is total and flags each structural fault."""
from vp import reg as R
from vp import chx_hash, sidecar_stub
from vp.mini import MINI
from models import sidecar_ref as M
from hed.models.sidecar import Sidecar
from hed.models.column_metadata import ColumnMetadata, ColumnType
from hed.validator.sidecar_validator import SidecarValidator
from hed.errors.error_reporter import ErrorHandler

chx_hash.install()          # builtin hash() without CrossHair's short-circuit fork (see vp/chx_hash.py)
_SV = SidecarValidator(MINI)

_HARDWIRE_KNOWN = False      # while developing: exclusions active without known_findings.json


def _known(fid, verdict):
    if _HARDWIRE_KNOWN:
        return bool(verdict)
    return R.known(fid, verdict)


# ------------------------------------------------------------------ JSON values from shape selectors
# value kinds: 0 null, 1 false, 2 true, 3 number i, 4 string s, 5 [], 6 [child], 7 {}, 8 {key: child},
#              9 {key: child, "z": child}
_HAS_CHILD = (6, 8, 9)


def _val(sel, s, i, key, child):
    if sel == 0:
        return None
    if sel == 1:
        return False
    if sel == 2:
        return True
    if sel == 3:
        return i
    if sel == 4:
        return s
    if sel == 5:
        return []
    if sel == 6:
        return [child]
    if sel == 7:
        return {}
    if sel == 8:
        return {key: child}
    return {key: child, "z": child}


def _doc(top, nk, name, e, k1, v, k2, w, key, s, i):
    """JSON document to depth 3: top-level value (kind `top`) holding entry E (kind `e`) under the column
    name ("HED" if nk == 0 else `name`), holding V (kind `v`) under "HED" (k1 == 0) or `key`, holding W
    (kind `w`) under "n/a" (k2 == 0) or `key`; W's own child is the string s under key "q"."""
    W = _val(w, s, i, "q", s)
    V = _val(v, s, i, "n/a" if k2 == 0 else key, W)
    E = _val(e, s, i, "HED" if k1 == 0 else key, V)
    return _val(top, s, i, "HED" if nk == 0 else name, E)


def _sel_ok(*sels):
    for x in sels:
        if not (0 <= x <= 9):
            return False
    return True


def _cell(top, e, v):
    t = R.env_int("VP_TOP")
    if t is not None and top != t:
        return False
    t = R.env_int("VP_E")
    if t is not None and e != t:
        return False
    t = R.env_int("VP_V")
    if t is not None and v != t:
        return False
    return True


def _doc_cells(split_v_for=()):
    """disjoint cover of (top, e, v) in [0,9]^3 up to unused selectors: tops without a child are one cell
    each; tops with a child are split by e; (top, e) pairs in split_v_for are split further by v."""
    cells = []
    for top in range(10):
        if top not in _HAS_CHILD:
            cells.append({"VP_TOP": top})
            continue
        for e in range(10):
            if (top, e) in split_v_for:
                for v in range(10):
                    cells.append({"VP_TOP": top, "VP_E": e, "VP_V": v})
            else:
                cells.append({"VP_TOP": top, "VP_E": e})
    return cells


# ------------------------------------------------------------------ known findings (genuine, see report)
def _kf_toplevel(doc):
    """the decoded document is not an object and dict.update() cannot swallow it (anything but an iterable
    of 2-item sequences with hashable first items): Sidecar.load_sidecar_files raises TypeError/ValueError"""
    if isinstance(doc, dict):
        return False
    if doc is None or isinstance(doc, (bool, int)):
        return True
    for item in doc:                       # str or list
        if not isinstance(item, (str, list)) or len(item) != 2:
            return True
        if isinstance(item[0], (list, dict)):
            return True
    return False


def _kf_entry_not_object(doc):
    """some column entry is not an object (string, number, true/false, null, array):
    ColumnMetadata.hed_dict calls .get on it -> AttributeError"""
    if not isinstance(doc, dict):
        return False
    for k in doc:
        if not isinstance(doc[k], dict):
            return True
    return False


def _kf_unknown_ref_no_pound(doc):
    """a value column whose string has no '#' (so _validate_refs skips it) contains a reference {x} to a
    name that is neither a column of the sidecar nor "HED": SidecarValidator.validate indexes
    refs_strings[x] -> KeyError"""
    if not isinstance(doc, dict):
        return False
    for k in doc:
        entry = doc[k]
        if M.kind(entry) == "value":
            text = entry["HED"]
            if M.count_char(text, "#") == 0:
                for r in M.refs_of(text):
                    if M.is_ref_name(r) and r != "HED" and r not in doc:
                        return True
    return False


# ------------------------------------------------------------------ harness 1: totality on any document
def total_doc(top: int, nk: int, name: str, e: int, k1: int, v: int, k2: int, w: int, key: str, s: str,
              i: int) -> bool:
    """
    pre: _sel_ok(top, e, v, w) and 0 <= nk <= 1 and 0 <= k1 <= 1 and 0 <= k2 <= 1 and -1 <= i <= 1
    pre: _cell(top, e, v)
    pre: 1 <= len(name) <= R.M(1) and R.over(name, "ab")
    pre: len(key) <= 1 and R.over(key, "ab")
    pre: len(s) <= R.N(2) and R.over(s, "{}a#")
    pre: not _known("C08-toplevel-not-object", _kf_toplevel(_doc(top, nk, name, e, k1, v, k2, w, key, s, i)))
    pre: not _known("C08-entry-not-object", _kf_entry_not_object(_doc(top, nk, name, e, k1, v, k2, w, key, s, i)))
    pre: not _known("C08-unknown-ref-without-pound", _kf_unknown_ref_no_pound(_doc(top, nk, name, e, k1, v, k2, w, key, s, i)))
    post: _
    """
    doc = _doc(top, nk, name, e, k1, v, k2, w, key, s, i)
    sc = sidecar_stub.load(doc)
    issues = sc.validate(MINI)
    if not isinstance(issues, list):
        return False
    for issue in issues:
        if not isinstance(issue, dict) or "code" not in issue or "severity" not in issue:
            return False
    return True


_T_TOTAL = ["hed.models.sidecar.Sidecar.__init__", "hed.models.sidecar.Sidecar.load_sidecar_files",
            "hed.models.sidecar.Sidecar.validate", "hed.models.sidecar.Sidecar.column_data",
            "hed.models.sidecar.Sidecar.all_hed_columns", "hed.models.sidecar.Sidecar.__iter__",
            "hed.validator.sidecar_validator.SidecarValidator.validate",
            "hed.validator.sidecar_validator.SidecarValidator.validate_structure",
            "hed.validator.sidecar_validator.SidecarValidator._validate_column_structure",
            "hed.validator.sidecar_validator.SidecarValidator._validate_categorical_column",
            "hed.validator.sidecar_validator.SidecarValidator._validate_refs",
            "hed.validator.sidecar_validator.SidecarValidator._check_for_key",
            "hed.models.column_metadata.ColumnMetadata._detect_column_type",
            "hed.models.column_metadata.ColumnMetadata.hed_dict",
            "hed.models.column_metadata.ColumnMetadata.source_dict",
            "hed.models.column_metadata.ColumnMetadata.get_hed_strings"]

HARNESSES = [
    R.H("total_doc", _T_TOTAL,
        quick=R.tier(cells=_doc_cells(), env={"VP_N": 2, "VP_M": 1}, timeout=150,
                     bound="JSON documents to depth 3"),
        what="", oracle="none (totality)"),
]
