"""C10 — Onset/Offset/Inset bookkeeping follows the event history exactly.

Decided inductively on the validator's own state (OnsetValidator._onsets):

  onset_step        one marker from an ARBITRARY open-scope state satisfying the representation invariant
                    (keys case-folded, distinct); asserts verdict, new state == reference, frame condition,
                    invariant preserved.  Holding from every such state, it covers histories of any length.
  onset_time_point  one time point (<= 2 temporal groups) through validate_temporal_relations on a stub string
                    object: repeated name => one report per extra use and no state change for it; groups
                    without a Def are skipped; otherwise the markers act in order like single steps.
  onset_group_shape DefValidator.validate_onset_offset on fixed group shapes parsed (concretely, once) by the real
                    HedString over the mini schema, the first Def's name made symbolic through the public
                    `HedTag.extension` setter: accepted iff the group has the shape the HED rules allow.

Not decided here (needs pandas): building time points from rows (Delay shift, sorting, equal-onset merge) and
mapping issues back to rows.  "Scopes still open at the end are legal": OnsetValidator has no end-of-file step,
so there is nothing that could report them.
"""
from vp import reg as R
from vp import chx, chfix, msgstub
from models import onset_ref as ref
from vp.mini import MINI
from hed.models.hed_string import HedString
from hed.validator.def_validator import DefValidator
from hed.validator.onset_validator import OnsetValidator
from hed.errors.error_types import TemporalErrors

chx.install()
chfix.install()      # CrossHair 0.0.110: negative slice in SymbolicBoundedIntTuple._create_up_to (see vp/chfix.py)
# message TEXT of the three issues that print tag objects / lists of tags is stubbed: formatting a tag whose name
# is symbolic realises the name (str(list) -> repr(); f"{tag_object}" -> format() needs a real str); the
# wrappers that set the published code stay real (see vp/msgstub.py)
msgstub.mute(TemporalErrors.ONSET_WRONG_NUMBER_GROUPS)
msgstub.mute(TemporalErrors.ONSET_TOO_MANY_DEFS)
msgstub.mute(TemporalErrors.ONSET_TAG_OUTSIDE_OF_GROUP)

_TTE = "TEMPORAL_TAG_ERROR"


class _Tag:
    """stub tag: exactly the attributes OnsetValidator and the error formatter read"""

    def __init__(self, extension, short_base_tag):
        self.extension = extension
        self.short_base_tag = short_base_tag

    def __str__(self):
        return "<tag>"


class _Group:
    """stub temporal group: find_def_tags(include_groups=0) -> its Def tags"""

    def __init__(self, def_tags):
        self._defs = def_tags

    def find_def_tags(self, recursive=False, include_groups=3):
        return list(self._defs)

    def __str__(self):
        return "<group>"


class _TimePoint:
    """stub HED string of one time point: find_top_level_tags -> the (marker, group) pairs"""

    def __init__(self, pairs):
        self._pairs = pairs

    def find_top_level_tags(self, anchor_tags, include_groups=2):
        return list(self._pairs)


def _state(names):
    """{k: k}; created through dict() so that under CrossHair it is a scan-based map even when empty (a `{}`
    literal would hash, i.e. realise, the first symbolic key stored into it); a plain dict on replay"""
    d = dict()
    for k in names:
        d[k] = k
    return d


def _names_ok(*names):
    n = R.N(1)
    lo = R.env_int("VP_MINLEN", 0)
    for s in names:
        if not (lo <= len(s) <= n):
            return False
        if not R.ascii_printable(s):
            return False
    return True


def _open_list(n1, open1, n2, open2):
    out = []
    if open1:
        out.append(n1)
    if open2:
        out.append(n2)
    return out


def _all_tte(issues):
    for i in issues:
        if i["code"] != _TTE:
            return False
    return True


def _post_state_ok(ov, want):
    keys = list(ov._onsets)
    for k in keys:
        if not ref.is_folded(k):       # representation invariant the induction relies on
            return False
    return ref.same_scopes(keys, want)


def onset_step(n1: str, open1: bool, n2: str, open2: bool, name: str, kind: int) -> bool:
    """
    pre: 0 <= kind <= 2
    pre: _cell_kind(kind)
    pre: _names_ok(n1, n2, name)
    pre: ref.is_folded(n1) and ref.is_folded(n2) and n1 != n2
    post: _
    """
    before = _open_list(n1, open1, n2, open2)
    ov = OnsetValidator()
    ov._onsets = _state(before)
    issues = ov._handle_onset_or_offset(_Tag(name, "Def"), _Tag("", ref.KIND_TAGS[kind]))
    want, unmatched = ref.step(before, kind, name)
    if unmatched:
        if len(issues) != 1 or issues[0]["code"] != _TTE:
            return False
    elif issues != []:
        return False
    return _post_state_ok(ov, want)


def _cell_kind(kind):
    k = R.env_int("VP_KIND")
    return k is None or kind == k


def _cell_kind_b(kind):
    k = R.env_int("VP_KINDB")
    return k is None or kind == k


def _cell_m(m):
    k = R.env_int("VP_MARKERS")
    return k is None or m == k


def onset_time_point(n1: str, open1: bool, m: int, kind_a: int, name_a: str, def_a: bool,
                     kind_b: int, name_b: str, def_b: bool) -> bool:
    """
    pre: 0 <= m <= 2 and _cell_m(m)
    pre: 0 <= kind_a <= 2 and 0 <= kind_b <= 2
    pre: _cell_kind(kind_a) and _cell_kind_b(kind_b)
    pre: _names_ok(n1, name_a, name_b)
    pre: ref.is_folded(n1)
    post: _
    """
    before = [n1] if open1 else []
    ov = OnsetValidator()
    ov._onsets = _state(before)
    spec = [(kind_a, name_a, def_a), (kind_b, name_b, def_b)][:m]
    pairs = []
    markers = []
    for kind, name, has_def in spec:
        defs = [_Tag(name, "Def")] if has_def else []
        pairs.append((_Tag("", ref.KIND_TAGS[kind]), _Group(defs)))
        if has_def:
            markers.append((kind, name))
    issues = ov.validate_temporal_relations(_TimePoint(pairs))
    want, unmatched, repeated = ref.time_point(before, markers)
    if len(issues) != unmatched + repeated or not _all_tte(issues):
        return False
    return _post_state_ok(ov, want)


# ---- structure of one temporal group: the real parser + DefValidator.validate_onset_offset on the mini schema
_DEFS = DefValidator(["(Definition/x, (B))", "(Definition/y/#, (C/#))"], MINI)   # x: no value, y: takes a value


def _shape_text(kind, n_defs, expand, n_groups, n_tags, delay):
    text = "("
    if n_defs >= 1:
        text += "(Def-expand/x, (B)), " if expand else "Def/x, "
    if n_defs == 2:
        text += "Def/y/1, "
    text += ref.KIND_TAGS[kind]
    text += [", (A)", ", (A), (F)"][n_groups - 1] if n_groups else ""
    text += [", A", ", A, F"][n_tags - 1] if n_tags else ""
    if delay:
        text += ", Delay/1 s"
    return text + ")"


# fixtures: every shape parsed ONCE, concretely, by the real HedString/HedTag code at import (parsing a concrete
# string inside each symbolic path costs ~1 s per path under CrossHair's tracer and adds nothing symbolic)
_SHAPES = [[[[[[HedString(_shape_text(k, d, e, g, t, y), MINI) for y in (False, True)] for t in range(3)]
              for g in range(3)] for e in (False, True)] for d in range(3)] for k in range(3)]


def _pick(i):
    """the concrete int equal to i in 0..2 (one fork per value; indexing a list with a symbolic int instead yields
    several overlapping paths per element)"""
    if i == 0:
        return 0
    if i == 1:
        return 1
    return 2


def _defname_ok(d):
    return len(d) <= R.M(2) and R.ascii_printable(d)


def _cell_ndefs(n):
    k = R.env_int("VP_NDEFS")
    return k is None or n == k


def onset_group_shape(kind: int, n_defs: int, expand: bool, n_groups: int, n_tags: int, delay: bool,
                      dname: str) -> bool:
    """
    pre: 0 <= kind <= 2 and _cell_kind(kind)
    pre: 0 <= n_defs <= 2 and _cell_ndefs(n_defs)
    pre: 0 <= n_groups <= 2 and 0 <= n_tags <= 2
    pre: _defname_ok(dname)
    post: _
    """
    kind, n_defs, n_groups, n_tags = _pick(kind), _pick(n_defs), _pick(n_groups), _pick(n_tags)
    hs = _SHAPES[kind][n_defs][1 if expand else 0][n_groups][n_tags][1 if delay else 0]
    if n_defs == 0:
        issues = _DEFS.validate_onset_offset(hs)
    else:
        tag = hs.find_def_tags(recursive=True, include_groups=0)[0]
        try:
            tag.extension = dname                   # public setter; symbolic name on the real parsed Def tag
            issues = _DEFS.validate_onset_offset(hs)
        finally:
            tag.extension = "x"                     # fixtures are shared between paths: always restore
    known = takes = has_value = False
    if n_defs == 1:                                 # with 0 or 2 Defs the group is wrong whatever the name is
        label, _, value = dname.partition("/")
        takes = ref.same_name(label, "y")
        known = takes or ref.same_name(label, "x")
        has_value = value != ""
    if ref.group_ok(kind, n_defs, n_groups, n_tags, known, takes, has_value):
        return issues == []
    return len(issues) >= 1 and _all_tte(issues)


# ---- the same time-point check on REAL parsed objects (real find_top_level_tags / find_def_tags traversal)
def _tp_text(kind_a, expand_a, kind_b, expand_b):
    def grp(kind, expand):
        return ("((Def-expand/x, (B)), " if expand else "(Def/x, ") + ref.KIND_TAGS[kind] + ")"
    return grp(kind_a, expand_a) + ", A, " + grp(kind_b, expand_b)


_TP_FIX = [[[[HedString(_tp_text(ka, ea, kb, eb), MINI) for eb in (False, True)] for kb in range(3)]
            for ea in (False, True)] for ka in range(3)]


def onset_time_point_parsed(n1: str, open1: bool, kind_a: int, expand_a: bool, name_a: str,
                            kind_b: int, expand_b: bool, name_b: str) -> bool:
    """
    pre: 0 <= kind_a <= 2 and 0 <= kind_b <= 2
    pre: _cell_kind(kind_a) and _cell_kind_b(kind_b)
    pre: _names_ok(n1, name_a, name_b)
    pre: ref.is_folded(n1)
    post: _
    """
    kind_a, kind_b = _pick(kind_a), _pick(kind_b)
    hs = _TP_FIX[kind_a][1 if expand_a else 0][kind_b][1 if expand_b else 0]
    tags = hs.find_def_tags(recursive=True, include_groups=0)
    before = [n1] if open1 else []
    ov = OnsetValidator()
    ov._onsets = _state(before)
    try:
        tags[0].extension = name_a
        tags[1].extension = name_b
        issues = ov.validate_temporal_relations(hs)
    finally:
        tags[0].extension = "x"
        tags[1].extension = "x"
    want, unmatched, repeated = ref.time_point(before, [(kind_a, name_a), (kind_b, name_b)])
    if len(issues) != unmatched + repeated or not _all_tte(issues):
        return False
    return _post_state_ok(ov, want)


# disjoint cover of m in 0..2 x kinds: m=0 one cell; m=1 by kind_a; m=2 by (kind_a, kind_b)
_TP_CELLS = ([{"VP_MARKERS": 0}] + R.product_cells([{"VP_MARKERS": 1}], R.int_cells("VP_KIND", 0, 2))
             + R.product_cells([{"VP_MARKERS": 2}], R.int_cells("VP_KIND", 0, 2), R.int_cells("VP_KINDB", 0, 2)))

_T_STEP = ["hed.validator.onset_validator.OnsetValidator._handle_onset_or_offset"]
_T_TP = ["hed.validator.onset_validator.OnsetValidator.validate_temporal_relations",
         "hed.validator.onset_validator.OnsetValidator._handle_onset_or_offset"]
_T_SHAPE = ["hed.validator.def_validator.DefValidator.validate_onset_offset",
            "hed.validator.def_validator.DefValidator._handle_onset_or_offset",
            "hed.models.hed_string.HedString.find_top_level_tags", "hed.models.hed_group.HedGroup.find_def_tags"]
_STUBS = ["stub tags exposing only `extension` / `short_base_tag` (and a constant __str__ for messages); the "
          "pre-state dict is set directly on OnsetValidator._onsets, restricted to the invariant 'keys are "
          "case-folded and distinct', which the harness re-checks on every post-state",
          "chx: ASCII-exact z3 model of str.casefold; names are printable ASCII"]

HARNESSES = [
    R.H("onset_step", _T_STEP,
        quick=R.tier(cells=R.int_cells("VP_KIND", 0, 2), env={"VP_N": 2}, timeout=300,
                     bound="pre-state: 2 other names (each open or not), marker of any kind; all three names "
                           "any printable-ASCII text of 0..2 characters"),
        thorough=R.tier(cells=R.int_cells("VP_KIND", 0, 2), env={"VP_N": 4}, timeout=2400, path_timeout=60,
                        bound="as quick with names of 0..4 printable-ASCII characters (covers a/1, ab/1, a/12)"),
        what="one marker from an arbitrary open-scope state: unmatched (exactly one TEMPORAL_TAG_ERROR) iff the name is not open case-insensitively; Onset opens/restarts, Offset closes, Inset keeps; "
             "all other scopes unchanged; keys stay case-folded",
        oracle="models/onset_ref.py step()/same_scopes() (list of open names, char-wise ASCII fold)",
        stubs=_STUBS,
        outside="names longer than the bound, non-ASCII names; more than two other open names (frame argument: "
                "the effect on any one other key is what is asserted)"),
    R.H("onset_time_point", _T_TP,
        quick=R.tier(cells=_TP_CELLS,
                     env={"VP_N": 2}, timeout=400,
                     bound="one time point with 0..2 temporal groups (each with or without a Def tag), any kinds, "
                           "from a state with one other name open or not; names any printable-ASCII text of "
                           "0..2 characters"),
        thorough=R.tier(cells=_TP_CELLS,
                        env={"VP_N": 4}, timeout=2400, path_timeout=60,
                        bound="as quick with names of 0..4 printable-ASCII characters"),
        what="markers of one time point act in order like single steps; a name already used in the time point "
             "gives one TEMPORAL_TAG_ERROR per extra use and no state change; groups without a Def are skipped; "
             "number of issues == unmatched + repeated; post-state == reference",
        oracle="models/onset_ref.py time_point()",
        stubs=_STUBS + ["stub string object whose find_top_level_tags returns the (marker, group) pairs; stub "
                        "group whose find_def_tags returns zero or one Def tag"],
        outside="more than 2 temporal groups per time point; construction of time points from rows (Delay splitting, sorting, equal-onset merge: pandas), "
                "row mapping in SpreadsheetValidator._run_onset_checks"),
    R.H("onset_time_point_parsed", _T_TP + ["hed.models.hed_string.HedString.find_top_level_tags",
                                            "hed.models.hed_group.HedGroup.find_def_tags"],
        quick=R.tier(cells=R.product_cells(R.int_cells("VP_KIND", 0, 2), R.int_cells("VP_KINDB", 0, 2)),
                     env={"VP_N": 1}, timeout=300,
                     bound="the string '<G1>, A, <G2>' with Gi = (Def/<name>, <kind>) or ((Def-expand/<name>, (B)), "
                           "<kind>), any two kinds, from a state with one other name open or not; names any "
                           "printable-ASCII text of 0..1 characters"),
        thorough=R.tier(cells=R.product_cells(R.int_cells("VP_KIND", 0, 2), R.int_cells("VP_KINDB", 0, 2)),
                        env={"VP_N": 3}, timeout=2400, path_timeout=60,
                        bound="as quick with names of 0..3 printable-ASCII characters"),
        what="as onset_time_point, but the (marker, group) pairs and the Def tags are found by the real "
             "HedString.find_top_level_tags / HedGroup.find_def_tags on a really parsed two-group string",
        oracle="models/onset_ref.py time_point()",
        stubs=[_STUBS[1], "the 36 strings are parsed once at import by the real HedString/HedTag code (concrete); the "
               "two Def/Def-expand names are then replaced through the public HedTag.extension setter by the "
               "symbolic texts; restored after each path; pre-state dict set directly as in onset_step"],
        outside="other group contents; more than two temporal groups; construction of time points from rows"),
    R.H("onset_group_shape", _T_SHAPE,
        quick=R.tier(cells=R.product_cells(R.int_cells("VP_KIND", 0, 2), R.int_cells("VP_NDEFS", 0, 2)),
                     env={"VP_M": 2}, timeout=300,
                     bound="one top-level temporal group: marker kind x {0,1,2 Def tags, first as Def or Def-expand "
                           "group} x {0,1,2 other inner groups} x {0,1,2 other tags} x {Delay or not}; first Def's "
                           "name any well-formed printable-ASCII text of 1..2 characters",
                     ),
        thorough=R.tier(cells=R.product_cells(R.int_cells("VP_KIND", 0, 2), R.int_cells("VP_NDEFS", 0, 2)),
                        env={"VP_M": 4}, timeout=2400, path_timeout=60,
                        bound="as quick with definition-name text of 1..4 characters (covers x/1, y/12, ab/1)"),
        what="validate_onset_offset accepts the group (no issue) iff it has exactly one Def/Def-expand, at most "
             "one other child for Onset/Inset and none for Offset (Delay not counted), that child is a group, the "
             "definition exists (case-insensitive) and a value is given iff the definition takes one; otherwise "
             "at least one issue, all TEMPORAL_TAG_ERROR",
        oracle="models/onset_ref.py group_ok()",
        stubs=["mini schema (vp/mini.py) with definitions x (no value) and y/# built by the real DefinitionDict",
               "the 324 shape strings are parsed once at import by the real HedString/HedTag code (concrete); the "
               "first Def/Def-expand tag's name is then replaced through the public HedTag.extension setter by "
               "the symbolic text (its org_tag stays 'Def/x'); restored after each path",
               "vp/msgstub.py: message TEXT of ONSET_WRONG_NUMBER_GROUPS, ONSET_TOO_MANY_DEFS and "
               "ONSET_TAG_OUTSIDE_OF_GROUP replaced by a constant (formatting a symbolic tag name realises it); "
               "code/severity wrappers stay real",
               "chx: ASCII-exact z3 model of str.casefold; names are printable ASCII"],
        outside="other tags/groups than the fixed fillers A, F, (A), (F), (B); several temporal groups in one "
                "string; nesting below top level; malformed name text (empty components, delimiters)"),
]
