"""C02 — parsing is total and the parse tree mirrors the source text."""
from vp import reg as R
from vp import chx, astpatch
from vp.stubs import NOSCHEMA
from models import parse_ref
from hed.models.hed_string import HedString
from hed.models.hed_tag import HedTag
from hed.validator.util.string_util import StringValidator

chx.install()
astpatch.is_to_eq(HedString, "split_into_groups")   # `is '('` -> `== '('` (see vp/astpatch.py)
_SV = StringValidator()


def _shape(children, s):
    """real tree -> reference form; None when a tag's text is not the slice at its span"""
    out = []
    for c in children:
        if isinstance(c, HedTag):
            a, b = c.span
            if c.org_tag != s[a:b]:
                return None
            out.append(("t", a, b))
        else:
            a, b = c.span
            if c.get_original_hed_string() != s[a:b]:
                return None
            sub = _shape(c.children, s)
            if sub is None:
                return None
            out.append(("g", a, b, sub))
    return out


def _texts(children):
    out = []
    for c in children:
        if isinstance(c, HedTag):
            out.append(c.org_tag)
        else:
            out.append(_texts(c.children))
    return out


def tree_mirrors(s: str) -> bool:
    """
    pre: len(s) <= R.N(5)
    pre: R.scell(s)
    post: _
    """
    h = HedString(s, NOSCHEMA)
    if parse_ref.balanced(s):
        ref = parse_ref.parse(s)
        got = _shape(h.children, s)
        if got != ref:
            return False
        return True
    if h.children != []:
        return False
    codes = [i["code"] for i in _SV.run_string_validator(h)]
    return "PARENTHESES_MISMATCH" in codes


def reprint_stable(s: str) -> bool:
    """
    pre: len(s) <= R.N(4)
    pre: R.scell(s)
    post: _
    """
    h = HedString(s, NOSCHEMA)
    if not parse_ref.balanced(s):
        return h.children == []
    mine = _texts(h.children)
    for form in (str(h), h.get_as_short(), h.get_as_long(), h.get_as_original()):
        if _texts(HedString(form, NOSCHEMA).children) != mine:
            return False
    return True


def split_tiles(s: str) -> bool:
    """
    pre: len(s) <= R.N(5)
    pre: R.scell(s)
    post: _
    """
    res = HedString.split_hed_string(s)
    pos = 0
    for is_tag, (a, b) in res:
        if a != pos or b <= a:
            return False
        pos = b
        seg = s[a:b]
        if is_tag:
            if seg[0] == " " or seg[-1] == " ":
                return False
            for ch in seg:
                if ch == "," or ch == "(" or ch == ")":
                    return False
        else:
            for ch in seg:
                if not (ch == "," or ch == "(" or ch == ")" or ch == " "):
                    return False
    return pos == len(s)


_T = ["hed.models.hed_string.HedString.split_hed_string", "hed.models.hed_string.HedString.split_into_groups",
      "hed.models.hed_string.HedString.__init__", "hed.models.hed_tag.HedTag.__init__",
      "hed.models.hed_group.HedGroup.get_as_form", "hed.models.hed_group.HedGroup.get_original_hed_string",
      "hed.validator.util.string_util.StringValidator.check_count_tag_group_parentheses"]

HARNESSES = [
    R.H("tree_mirrors", _T,
        quick=R.tier(cells=R.str_cells(4, split1_from=3, split2_from=4), env={"VP_N": 4}, timeout=150,
                     bound="every Unicode string s with len(s) <= 4"),
        thorough=R.tier(cells=R.str_cells(5, split1_from=3, split2_from=4), env={"VP_N": 5}, timeout=1500,
                        path_timeout=60, bound="every Unicode string s with len(s) <= 5"),
        what="construction never raises; balanced: tree == reference parse (spans, slices, nesting); "
             "unbalanced: empty tree and PARENTHESES_MISMATCH reported",
        oracle="models/parse_ref.py (stack parser over ',()' with U+0020 trimming)",
        stubs=["split_into_groups is recompiled from /repo source with `is` on characters replaced by `==` (CPython-equivalent; CrossHair proxies have no identity)", "NoSchema stub: no tag is looked up, so short/long printing equals the original text here"],
        outside="strings longer than the bound; schema-identified short/long printing (C03 decides that on the mini schema)"),
    R.H("reprint_stable", _T,
        quick=R.tier(cells=R.str_cells(4, split1_from=3, split2_from=4), env={"VP_N": 4}, timeout=150,
                     bound="every Unicode string s with len(s) <= 4"),
        thorough=R.tier(cells=R.str_cells(5, split1_from=3, split2_from=4), env={"VP_N": 5}, timeout=1500,
                        path_timeout=60, bound="every Unicode string s with len(s) <= 5"),
        what="printing the tree in str/short/long/original form and re-parsing gives the same nesting and tag texts",
        oracle="second run of the real parser on the printed text",
        stubs=["split_into_groups is recompiled from /repo source with `is` on characters replaced by `==`",
               "NoSchema stub: short/long printing equals the original text here"],
        outside="strings longer than the bound; schema-identified short/long printing (C03)"),
    R.H("split_tiles", ["hed.models.hed_string.HedString.split_hed_string"],
        quick=R.tier(cells=R.str_cells(5, split1_from=5), env={"VP_N": 5}, timeout=120,
                     bound="every Unicode string s with len(s) <= 5"),
        thorough=R.tier(cells=R.str_cells(7, split1_from=4, split2_from=6), env={"VP_N": 7}, timeout=900,
                        bound="every Unicode string s with len(s) <= 7 (len 8 did not exhaust in 1500 CPU-s per cell)"),
        what="the tokenizer's spans tile the string; tag spans are trimmed, non-empty and delimiter-free; "
             "delimiter spans hold only ',() '",
        oracle="inline tiling predicate", outside="strings longer than the bound"),
]
