"""C03 — every spelling of a schema tag resolves to the same node and canonical forms.

Real code under symbolic execution: HedTag.__init__/_calculate_to_canonical_forms and its form properties,
HedSchema.find_tag_entry/_find_tag_entry/_find_tag_subfunction/_validate_remaining_terms/get_tag_entry,
HedSchemaGroup.find_tag_entry, HedSchemaTagSection.get (the suffix-form table was built by the real loader at
import), HedString.get_as_long/get_as_short.  Schema: vp.mini (MINI, MINI_P = same tree with prefix "p:", GROUP).
Reference: models/mini_rules.py (tree walk over the MediaWiki text of the mini tag tree).
"""
from vp import reg as R
from vp import chx, chx_case, astpatch
from vp.mini import MINI, MINI_P, GROUP
from models import mini_rules as MR
from hed.models.hed_tag import HedTag
from hed.models.hed_string import HedString

chx.install()
chx_case.install()
astpatch.is_to_eq(HedString, "split_into_groups")   # `is '('` -> `== '('` (see vp/astpatch.py, as in C02)

_PFX = ["", "p:"]
_SCHEMA_OF = {"": MINI, "p:": MINI_P}
# the entry objects created by the real loader, by schema prefix and by the node's name as written in the
# MediaWiki text (concrete, built once at import)
_ENTRIES = {p: {e.name: e for e in sch.tags.all_entries} for p, sch in _SCHEMA_OF.items()}
assert all(sorted(d) == sorted(n["long"] for n in MR.nodes()) for d in _ENTRIES.values())


def _entry(prefix, node_long):
    return _ENTRIES[prefix][node_long]


# ---- partition: exact length (VP_LEN) x class of the first character (VP_G0); VP_FINE=1 selects the finer classes
_COARSE = ["aA", "bB", "cC", "dD", "eEoOiI", "fF", "gGhHuU", "/", "p:"]           # + "everything else"
_FINE = ["a", "A", "b", "B", "c", "C", "dD", "eE", "oOiI", "f", "F", "g", "G", "h", "H", "u", "U", "/", "p:"]


def _groups():
    return _FINE if R.env_int("VP_FINE") else _COARSE


def _g0(ch):
    i = 0
    for g in _groups():
        for c in g:
            if ch == c:
                return i
        i += 1
    return i


def _cell(s):
    L = R.env_int("VP_LEN")
    if L is not None and len(s) != L:
        return False
    g = R.env_int("VP_G0")
    if g is not None:
        if len(s) < 1 or _g0(s[0]) != g:
            return False
    if R.env_int("VP_S1"):                 # shape cell: second character is the slash (x/...)
        if len(s) < 2 or s[1] != "/":
            return False
    return True


def _cells(n, split_from, fine_from=99, minlen=0):
    """disjoint cover of {s: minlen <= len(s) <= n}: one cell per length; lengths >= split_from are split by the
    class of s[0] (coarse classes, fine classes from length fine_from on)"""
    out = []
    for L in range(minlen, n + 1):
        if L >= max(fine_from, 1):
            for g in range(len(_FINE) + 1):
                out.append({"VP_LEN": L, "VP_G0": g, "VP_FINE": 1})
        elif L >= max(split_from, 1):
            for g in range(len(_COARSE) + 1):
                out.append({"VP_LEN": L, "VP_G0": g})
        else:
            out.append({"VP_LEN": L})
    return out


# ---- known finding: a literal "#" term directly after a value-taking node, followed by more text
def _kf_hash_term(text, prefixes):
    """`C/#/x`: the reference says node A/B/C/# with value '/#/x' (kept verbatim); hed-python consumes 'C/#' as a
    table form and keeps only '/x', so long/short forms silently drop the '#' term."""
    if text.find("/#/") == -1:          # cheap guard: the class needs a literal '#' term followed by a slash
        return False
    p, n, r = MR.resolve_ns(text, prefixes)
    return n is not None and n.endswith("/#") and r.startswith("/#/")


def _unidentified(t, s):
    """nothing identified: every form is the text as written"""
    return (t._schema_entry is None and not t.tag_exists_in_schema() and t.long_tag == s and t.short_tag == s
            and t.base_tag == s and t.short_base_tag == s and t.org_base_tag == s and t.extension == ""
            and t.tag_terms == ())


def _identified(t, s, p, n, r):
    """t (built from text s) is identified as node n of the schema with prefix p, remainder r verbatim"""
    e = t._schema_entry
    if e is None or e is not _entry(p, n):
        return False
    if not t.tag_exists_in_schema() or t.schema_namespace != p:
        return False
    if t.extension != r[1:] or (r != "" and r[0] != "/") or not s.endswith(r):
        return False
    if t.long_tag != MR.long_form(n, r, p) or t.short_tag != MR.short_form(n, r, p):
        return False
    if t.base_tag != MR.base_long(n) or t.short_base_tag != MR.base_short(n):
        return False
    if t.org_base_tag + r != s or str(t) != t.short_tag:
        return False
    return t.tag_terms == tuple(MR.base_long(n).lower().split("/"))


def resolves_like_reference(s: str) -> bool:
    """
    pre: len(s) <= R.N(3)
    pre: _cell(s)
    pre: R.ascii_printable(s)
    pre: not R.known("C03-hash-term", _kf_hash_term(s, [""]))
    post: _
    """
    t = HedTag(s, MINI)
    p, n, r = MR.resolve_ns(s, [""])
    whole = MINI.get_tag_entry(s)          # lookup "without extension handling": the whole text must be a form
    if n is None:
        return _unidentified(t, s) and whole is None
    if not _identified(t, s, p, n, r):
        return False
    e2, r2, issues = MINI.find_tag_entry(s, "")
    if e2 is not t._schema_entry or (r2 or "") != r or issues:
        return False
    if r == "" or (r == "/#" and n.endswith("/#")):
        return whole is t._schema_entry
    return whole is None


def forms_inverse(s: str) -> bool:
    """
    pre: len(s) <= R.N(3)
    pre: _cell(s)
    pre: R.ascii_printable(s)
    post: _
    """
    t = HedTag(s, MINI)
    if not t.tag_exists_in_schema():
        return True
    lo = HedTag(t.long_tag, MINI)
    sh = HedTag(t.short_tag, MINI)
    if lo._schema_entry is not t._schema_entry or sh._schema_entry is not t._schema_entry:
        return False
    if sh.long_tag != t.long_tag or lo.short_tag != t.short_tag:      # long(short(t)) = long(t), short(long(t)) = short(t)
        return False
    if lo.long_tag != t.long_tag or sh.short_tag != t.short_tag:      # idempotent
        return False
    if lo.extension != t.extension or sh.extension != t.extension:    # suffix carried over verbatim
        return False
    return s.endswith(t._extension_value) and t.long_tag.endswith(t._extension_value)


def case_variants(s: str) -> bool:
    """
    pre: len(s) <= R.N(3)
    pre: _cell(s)
    pre: R.ascii_printable(s)
    post: _
    """
    t = HedTag(s, MINI)
    lo = HedTag(s.lower(), MINI)
    up = HedTag(s.upper(), MINI)
    sw = HedTag(s.swapcase(), MINI)
    e = t._schema_entry
    if lo._schema_entry is not e or up._schema_entry is not e or sw._schema_entry is not e:
        return False
    if e is None:
        return True
    x = t._extension_value
    if lo._extension_value != x.lower() or up._extension_value != x.upper() or sw._extension_value != x.swapcase():
        return False
    return lo.base_tag == t.base_tag and up.short_base_tag == t.short_base_tag and sw.base_tag == t.base_tag


def _variant(s, k):
    if k == 1:
        return s.lower()
    if k == 2:
        return s.upper()
    if k == 3:
        return s.swapcase()
    return s


def _agrees(t, text):
    """t (built from `text`) shows exactly what the reference says about `text` (names, not object identity)"""
    p, n, r = MR.resolve_ns(text, [""])
    if n is None:
        return t._schema_entry is None and t.long_tag == text and t.short_tag == text
    if t._schema_entry is None:
        return False
    return (t.long_tag == MR.long_form(n, r, p) and t.short_tag == MR.short_form(n, r, p)
            and t._extension_value == r and t.base_tag == MR.base_long(n))


def lookup_history(s: str, k1: int, k2: int) -> bool:
    """
    pre: 1 <= len(s) <= R.N(3)
    pre: _cell(s)
    pre: R.ascii_printable(s)
    pre: 0 <= k1 <= R.env_int("VP_K1MAX", 0) and 0 <= k2 <= 3
    pre: R.env_int("VP_K") is None or k2 == R.env_int("VP_K")
    pre: not R.known("C03-hash-term", _kf_hash_term(s, [""]))
    post: _
    """
    # A history of lookups on ONE schema object (a private copy, so that paths cannot influence each other):
    # spelling v1, then another letter-case spelling v2 of the same tag, then v1 again.  Every lookup must give
    # what the reference says about ITS OWN text - in particular its own suffix verbatim - whatever was asked before.
    from vp import mini as _mini
    sch = _mini.fresh()
    v1, v2 = _variant(s, k1), _variant(s, k2)
    a = HedTag(v1, sch)
    b = HedTag(v2, sch)
    c = HedTag(v1, sch)
    if not (_agrees(a, v1) and _agrees(b, v2) and _agrees(c, v1)):
        return False
    return a._schema_entry is b._schema_entry and a._schema_entry is c._schema_entry


def prefix_letter_overlap(s: str) -> bool:
    """
    pre: 1 <= len(s) <= R.N(2)
    pre: _cell(s)
    pre: R.ascii_printable(s)
    pre: ":" not in s
    pre: not R.known("C03-hash-term", _kf_hash_term(s, [""]))
    post: _
    """
    # the namespace prefix is removed as a PREFIX: with the library loaded as "a:" the spelling "a:" + s is the
    # node that s alone names (also when s itself begins with the prefix's letters: a:a, a:a/b, a:A/x)
    from vp import mini as _mini
    text = "a:" + s
    t = HedTag(text, _mini.GROUP_A)
    p, n, r = MR.resolve_ns(text, ["", "a:"])
    if n is None:
        return t._schema_entry is None
    if t._schema_entry is None or t._schema_entry is not _mini.MINI_A.tags.get(t._schema_entry.name):
        return False
    return (t.long_tag == MR.long_form(n, r, "a:") and t.short_tag == MR.short_form(n, r, "a:")
            and t._extension_value == r)


def _ns_k(k):
    c = R.env_int("VP_K")
    return 0 <= k <= 1 and (c is None or k == c)


def _len_ok(s, lo=0):
    """len(s) within lo..VP_N; the shape cell VP_S1 (x/y..., exact length VP_LEN) extends the bound by one"""
    if R.env_int("VP_S1"):
        return lo <= len(s) <= R.N(2) + 1
    return lo <= len(s) <= R.N(2)


def namespace_variants(k: int, s: str) -> bool:
    """
    pre: _ns_k(k)
    pre: _len_ok(s)
    pre: _cell(s)
    pre: R.ascii_printable(s)
    pre: not R.known("C03-hash-term", _kf_hash_term(_PFX[k] + s, _PFX))
    post: _
    """
    text = _PFX[k] + s
    t = HedTag(text, GROUP)
    p, n, r = MR.resolve_ns(text, _PFX)
    if n is None:
        return _unidentified(t, text)
    if not _identified(t, text, p, n, r):
        return False
    lo = HedTag(t.long_tag, GROUP)
    sh = HedTag(t.short_tag, GROUP)
    if lo._schema_entry is not t._schema_entry or sh._schema_entry is not t._schema_entry:
        return False
    if sh.long_tag != t.long_tag or lo.short_tag != t.short_tag:
        return False
    # the same spelling with the other schema's prefix is the same-named node of that schema, same remainder
    q = _PFX[1 - _PFX.index(p)]
    o = HedTag(q + text[len(p):], GROUP)
    return _identified(o, q + text[len(p):], q, n, r)


def _plain_tag_text(s):
    if len(s) == 0 or s[0] == " " or s[-1] == " ":
        return False
    for ch in s:
        if ch == "," or ch == "(" or ch == ")":
            return False
    return True


def string_forms(s: str) -> bool:
    """
    pre: _len_ok(s, 1)
    pre: _cell(s)
    pre: R.ascii_printable(s)
    pre: _plain_tag_text(s)
    pre: not R.known("C03-hash-term", _kf_hash_term(s, _PFX))
    post: _
    """
    text = "(" + s + "),p:b/c"
    hs = HedString(text, GROUP)
    p, n, r = MR.resolve_ns(s, _PFX)
    lo = MR.long_form(n, r, p) if n is not None else s
    sh = MR.short_form(n, r, p) if n is not None else s
    if hs.get_as_long() != "(" + lo + "),p:A/B/C":
        return False
    if hs.get_as_short() != "(" + sh + "),p:C" or str(hs) != "(" + sh + "),p:C":
        return False
    return hs.get_as_original() == text


_T_FIND = ["hed.schema.hed_schema.HedSchema.find_tag_entry", "hed.schema.hed_schema.HedSchema._find_tag_entry",
           "hed.schema.hed_schema.HedSchema._find_tag_subfunction",
           "hed.schema.hed_schema.HedSchema._validate_remaining_terms",
           "hed.schema.hed_schema.HedSchema.get_tag_entry",
           "hed.schema.hed_schema_section.HedSchemaTagSection.get",
           "hed.schema.hed_schema_section.HedSchemaTagSection._get_tag_forms",
           "hed.schema.hed_schema_section.HedSchemaTagSection._check_if_duplicate",
           "hed.schema.hed_schema_entry.HedTagEntry.finalize_entry"]
_T_TAG = ["hed.models.hed_tag.HedTag.__init__", "hed.models.hed_tag.HedTag._calculate_to_canonical_forms",
          "hed.models.hed_tag.HedTag._get_schema_namespace",
          "hed.models.hed_tag.HedTag.long_tag", "hed.models.hed_tag.HedTag.short_tag",
          "hed.models.hed_tag.HedTag.base_tag", "hed.models.hed_tag.HedTag.short_base_tag",
          "hed.models.hed_tag.HedTag.org_base_tag", "hed.models.hed_tag.HedTag.extension"]
_T_GROUP = ["hed.schema.hed_schema_group.HedSchemaGroup.find_tag_entry",
            "hed.schema.hed_schema_group.HedSchemaGroup.schema_for_namespace"]
_STUBS = ["mini schema (vp/mini.py): 25-node tiny-name tag tree loaded by the real MediaWiki loader; the claim is "
          "about this schema's shapes, not the bundled vocabularies",
          "chx: ASCII-exact casefold()/lower() model for CrossHair strings; inputs restricted to printable ASCII",
          "the suffix-form table (_get_tag_forms/_check_if_duplicate) and the takes-value links (finalize_entry) are "
          "built concretely at import by the real loader from the mini MediaWiki text; the symbolic runs read them"]
_OUT = ("non-ASCII spellings; tag texts longer than the bound; the bundled schemas' vocabularies; rooted library "
        "tags / merged schemas; df_util.convert_to_form (pandas)")

_MINI_B = "every printable-ASCII tag text s with len(s) <= %d, schema MINI"
_NS_B = "text = ns + s, ns in {'', 'p:'}, every printable-ASCII s with len(s) <= %d, HedSchemaGroup([MINI, MINI_P])"
_SF_B = ("HedString('(' + s + '),p:b/c') for every delimiter-free, blank-trimmed printable-ASCII s with "
         "1 <= len(s) <= %d, HedSchemaGroup([MINI, MINI_P])")

_X_Y = [{"VP_LEN": 3, "VP_S1": 1}]          # extra shape cell of the quick tier: s = x + "/" + y
_X_Y_B = "; plus every s = x + '/' + y with single printable-ASCII characters x, y"

HARNESSES = [
    R.H("resolves_like_reference", _T_FIND + _T_TAG,
        quick=R.tier(cells=_cells(4, 3), env={"VP_N": 4}, timeout=600, bound=_MINI_B % 4),
        thorough=R.tier(cells=_cells(6, 3, fine_from=5), env={"VP_N": 6}, timeout=1500, path_timeout=60,
                        bound=_MINI_B % 6),
        what="HedTag(s) is identified iff the reference tree walk resolves s, as the same node (the entry object "
             "the loader created for the node's long name), with the remainder kept verbatim; long_tag/short_tag/"
             "base_tag/short_base_tag/org_base_tag/extension/tag_terms are node + remainder; find_tag_entry agrees; "
             "get_tag_entry(s) finds the node iff the whole text is a spelling",
        oracle="models/mini_rules.py resolve_ns (left-to-right tree walk over the MediaWiki tag tree)",
        stubs=_STUBS, outside=_OUT),
    R.H("forms_inverse", _T_FIND + _T_TAG,
        quick=R.tier(cells=_cells(4, 3), env={"VP_N": 4}, timeout=600, bound=_MINI_B % 4),
        thorough=R.tier(cells=_cells(5, 3, fine_from=5), env={"VP_N": 5}, timeout=1500, path_timeout=60,
                        bound=_MINI_B % 5),
        what="for identified t: HedTag(long(t)) and HedTag(short(t)) are the same entry object as t; "
             "long(short(t)) == long(t), short(long(t)) == short(t), both idempotent; the suffix is verbatim",
        oracle="second and third run of the real code on its own output", stubs=_STUBS, outside=_OUT),
    R.H("case_variants", _T_FIND + _T_TAG,
        quick=R.tier(cells=_cells(3, 3), env={"VP_N": 3}, timeout=600, bound=_MINI_B % 3),
        thorough=R.tier(cells=_cells(5, 3, fine_from=5), env={"VP_N": 5}, timeout=1500, path_timeout=60,
                        bound=_MINI_B % 5),
        what="s.lower(), s.upper() and s.swapcase() are identified as the same entry object as s (or all are "
             "unidentified), with the remainder transformed the same way and the same base forms",
        oracle="three further runs of the real code on case variants",
        stubs=_STUBS + ["chx_case: ASCII-exact upper()/swapcase() model for CrossHair strings"], outside=_OUT),
    R.H("prefix_letter_overlap", _T_FIND + _T_TAG + _T_GROUP,
        quick=R.tier(cells=_cells(3, 3, minlen=1), env={"VP_N": 3}, timeout=600,
                     bound="text 'a:' + s on HedSchemaGroup([MINI, MINI with prefix 'a:']), every printable-ASCII s "
                           "without ':' and 1 <= len(s) <= 3"),
        thorough=R.tier(cells=_cells(4, 3, minlen=1), env={"VP_N": 4}, timeout=1800, path_timeout=60,
                        bound="same with len(s) <= 4"),
        what="a spelling carrying a prefix whose letters also begin the tag (a:a, a:a/b, a:A/x) resolves to the node "
             "the unprefixed spelling names, in the prefixed schema, with prefixed canonical forms and verbatim suffix",
        oracle="models/mini_rules.py resolve_ns", stubs=["mini schema loaded a third time under the prefix 'a:'"],
        outside="other prefixes; bundled libraries"),
    R.H("lookup_history", _T_FIND + _T_TAG,
        quick=R.tier(cells=R.product_cells(_cells(3, 3, minlen=1), R.int_cells("VP_K", 0, 3)), env={"VP_N": 3},
                     timeout=600, bound=(_MINI_B % 3) + "; three lookups on one private schema copy: the text as "
                     "written, then its spelling k2 (as written/lower/upper/swapcase), then as written again"),
        thorough=R.tier(cells=R.product_cells(_cells(4, 3, minlen=1), R.int_cells("VP_K", 0, 3)),
                        env={"VP_N": 4, "VP_K1MAX": 3}, timeout=1800, path_timeout=60,
                        bound=(_MINI_B % 4) + "; first/third spelling also any of the four"),
        what="the result of a lookup does not depend on earlier lookups on the same schema object: each spelling gets "
             "the node, canonical forms and its OWN verbatim suffix that the reference gives for its own text",
        oracle="models/mini_rules.py per lookup", stubs=["fresh deep copy of the mini schema per call (path isolation)",
                                                       "chx / chx_case ASCII case accelerators"],
        outside="longer histories; bundled vocabularies"),
    R.H("namespace_variants", _T_FIND + _T_TAG + _T_GROUP,
        quick=R.tier(cells=R.product_cells(R.int_cells("VP_K", 0, 1), _cells(2, 9) + _X_Y), env={"VP_N": 2},
                     timeout=600, bound=(_NS_B % 2) + _X_Y_B),
        thorough=R.tier(cells=R.product_cells(R.int_cells("VP_K", 0, 1), _cells(4, 3, fine_from=4)),
                        env={"VP_N": 4}, timeout=1500, path_timeout=60, bound=_NS_B % 4),
        what="on the schema group: ns + s is identified iff the reference resolves it, in the schema owning the "
             "prefix, as the same-named node with the same verbatim remainder; forms carry the prefix; long/short "
             "round trip to the same entry; the other prefix gives the same-named node of the other schema",
        oracle="models/mini_rules.py resolve_ns with prefixes ['', 'p:']", stubs=_STUBS, outside=_OUT),
    R.H("string_forms", _T_FIND + _T_TAG + _T_GROUP + ["hed.models.hed_group.HedGroup.get_as_form",
                                                      "hed.models.hed_string.HedString.get_as_long",
                                                      "hed.models.hed_string.HedString.get_as_short"],
        quick=R.tier(cells=_cells(2, 9, minlen=1) + [dict(_X_Y[0], VP_G0=g) for g in range(len(_COARSE) + 1)],
                     env={"VP_N": 2}, timeout=600, bound=(_SF_B % 2) + _X_Y_B),
        thorough=R.tier(cells=_cells(3, 9, fine_from=3, minlen=1), env={"VP_N": 3}, timeout=1500, path_timeout=60,
                        bound=_SF_B % 3),
        what="get_as_long/get_as_short/str of a parsed annotation are the reference long/short forms of its tags "
             "in place (with and without namespace prefix); get_as_original is the source",
        oracle="models/mini_rules.py long_form/short_form",
        stubs=_STUBS + ["split_into_groups recompiled with `is` on characters replaced by `==` (as in C02)"],
        outside=_OUT),
]
