"""C11 - units are accepted and converted exactly as the schema defines them.

Real code under symbolic execution: HedTag.__init__ (tag resolution on the mini schema), HedTag.get_stripped_unit_value/
_get_tag_units_portion/value_as_default_unit/default_unit, UnitClassEntry.get_derivative_unit_entry (the derivative
table was built by the real loader: UnitEntry.finalize_entry/_get_conversion_factor), UnitEntry.get_conversion_factor,
HedValidator.validate_units -> UnitValueValidator.check_tag_unit_class_units_are_valid/_check_value_class/_check_units,
CharRexValidator.is_valid_value/get_problem_chars.
Schema: vp.mini.MINI (`C/#`, `Duration/#`, `Delay/#`: numericClass + the REAL 8.3.0 timeUnits class, all 40 modifiers).
Reference: models/units_ref.py (tables parsed from the MediaWiki text; rules U1-U5, N1).
"""
from vp import reg as R
from vp import chx, chfloat, chre_dollar
from vp.mini import MINI, wiki_text
from vp.mini_units import MINI_U, WIKI as WIKI_U
from models import units_ref as U
from hed.models.hed_tag import HedTag
from hed.validator.hed_validator import HedValidator
from hed.validator.util.char_util import CharRexValidator
from hed.errors.error_types import ErrorSeverity

chx.install()
chre_dollar.install()   # `$` also matches before one trailing newline (CrossHair's model misses it)
chfloat.install()       # float(<symbolic text>): acceptance exact, value abstracted (see vp/chfloat.py)

_T = U.Table(wiki_text())          # reference tables for MINI   (real 8.3.0 unit classes, 40 modifiers)
_TU = U.Table(WIKI_U)               # reference tables for MINI_U (same, 4 modifiers; root M takes currencyUnits)
_HV = HedValidator(MINI)
_HVU = HedValidator(MINI_U)
_CV = CharRexValidator()
_CLS = "timeUnits"


def _K(fid, verdict):      # TEST-ONLY hard-wired exclusion; replaced by R.known before finishing
    import os
    off = os.environ.get("VP_NO_EXCLUDE", "")
    return bool(verdict) and not (off == "1" or fid in off.split(","))


def _errors(issues):
    return [i["code"] for i in issues if i["severity"] == ErrorSeverity.ERROR]


# ---------------------------------------------------------------- partition helpers
# classes of the first character of a unit text (last class: everything else)
_UC = ["s", "m", "d", "h", "y", "M", "S", "D", "H", "Y", "c", "k", "n", "p", "u"]
NUC = len(_UC) + 1
# classes of the first character of a number text
_VC = ["0", "1", "+", "-", ".", " ", "e"]
NVC = len(_VC) + 1


def _ucell(u):
    return R.scell(u, _UC)


def _vu_cell(v, u):
    lv = R.env_int("VP_LV")
    if lv is not None and len(v) != lv:
        return False
    lu = R.env_int("VP_LU")
    if lu is not None and len(u) != lu:
        return False
    c = R.env_int("VP_CV")
    if c is not None and (len(v) < 1 or R.cls_of(v[0], _VC) != c):
        return False
    c = R.env_int("VP_CU")
    if c is not None and (len(u) < 1 or R.cls_of(u[0], _UC) != c):
        return False
    return True


def _vu_cells(nv, nu, split_v_from=None, extra=()):
    """disjoint cover of {(v, u): len(v) <= nv, 1 <= len(u) <= nu} plus the (len v, len u) pairs in `extra`;
    cells with len(v) >= split_v_from are split by the class of v[0]"""
    pairs = [(lv, lu) for lv in range(0, nv + 1) for lu in range(1, nu + 1)]
    pairs += [p for p in extra if p not in pairs]
    out = []
    for lv, lu in pairs:
        if split_v_from is not None and lv >= max(1, split_v_from):
            for i in range(NVC):
                out.append({"VP_LV": lv, "VP_LU": lu, "VP_CV": i})
        else:
            out.append({"VP_LV": lv, "VP_LU": lu})
    return out


# ---------------------------------------------------------------- known findings (exact failing input classes)
def _post_unit(table, cls, text):
    """the Form `text` spells as a unit written BEHIND the number (U1-U3, not U4), else None"""
    f = table.match(cls, text)
    if f is not None and f.prefix_unit:
        return None
    return f


def _pre_unit(table, cls, text):
    """the Form `text` spells as a unit written IN FRONT of the number (U4), else None"""
    f = table.match(cls, text)
    if f is not None and not f.prefix_unit:
        return None
    return f


def _kf_case(table, cls, u):
    """C11-name-case-conversion: a unit NAME (not a symbol) that declares a conversion factor, written with at least
    one upper-case letter ('Seconds', 'MilliSecond', 'DAY'): accepted by validation, value_as_default_unit raises
    TypeError."""
    f = _post_unit(table, cls, u)
    return f is not None and not f.exact and f.factor is not None and u != u.lower()


def _kf_junk(table, cls, v, u):
    """C11-junk-before-unit: `<number> <anything> <unit>` - whatever stands between a valid number and a recognised
    unit is dropped silently: validation reports nothing, value_as_default_unit raises ValueError."""
    k = v.find(" ")
    return k >= 0 and U.is_number(v[:k]) and _post_unit(table, cls, u) is not None


def _kf_empty_number(table, cls, v, u):
    """C11-empty-number-raises: nothing in front of the blank and an unrecognised unit behind it (`C/ xyz`):
    value_as_default_unit raises ValueError instead of returning None."""
    return len(v) == 0 and _post_unit(table, cls, u) is None


def _kf_unidigit(v):
    """C11-unicode-digits: some character is a decimal digit (Unicode category Nd) outside ASCII."""
    for c in v:
        if ord(c) >= 128 and c.isdecimal():
            return True
    return False


def _kf_newline(v):
    """C11-numeric-trailing-newline: a valid number followed by exactly one LINE FEED (`$` matches before it)."""
    return len(v) >= 1 and v[len(v) - 1] == chr(10) and U.is_number(v[:len(v) - 1])


# ---------------------------------------------------------------- kernels
def unit_accept_convert(u: str) -> bool:
    """
    pre: 1 <= len(u) <= R.N(4)
    pre: _ucell(u)
    pre: R.ascii_printable(u)
    pre: " " not in u and "/" not in u
    pre: not _K("C11-name-case-conversion", _kf_case(_T, _CLS, u))
    post: _
    """
    chfloat.exact(True)                         # the number text is the constant "3": CPython's own float("3")
    tag = HedTag("C/3 " + u, MINI)
    errs = _errors(_HV.validate_units(tag))
    stripped, unit = tag.get_stripped_unit_value(tag.extension)
    val = tag.value_as_default_unit()           # must never raise
    f = _post_unit(_T, _CLS, u)
    if f is None:
        return "UNITS_INVALID" in errs and unit is None and val is None
    if errs != [] or stripped != "3" or unit != u:
        return False
    if f.factor is None:
        return val is None
    return val == 3.0 * f.factor


def _agree(tag, hv, table, cls, a, b):
    """extension `a b` (b blank-free): validation verdict, value_as_default_unit and the reference agree"""
    errs = _errors(hv.validate_units(tag))
    f = _post_unit(table, cls, b)
    num = a
    if f is None:
        f = _pre_unit(table, cls, a)
        num = b
    if f is None:                                           # no recognised unit on either side
        if errs == []:
            return False
        if U.is_number(a) and "UNITS_INVALID" not in errs:
            return False
        return tag.value_as_default_unit() is None          # absent, not an exception
    if not U.is_number(num):                                # recognised unit, but what goes with it is not a number
        return errs != []
    if errs != []:
        return False
    val = tag.value_as_default_unit()                       # accepted: must not raise
    if f.factor is None:
        return val is None
    return isinstance(val, float)


def value_unit_agree(v: str, u: str) -> bool:
    """
    pre: len(v) <= 4 and 1 <= len(u) <= 8
    pre: _vu_cell(v, u)
    pre: R.ascii_printable(v) and R.ascii_printable(u)
    pre: " " not in u and "/" not in v and "/" not in u
    pre: not _K("C11-name-case-conversion", _kf_case(_TU, "timeUnits", u))
    pre: not _K("C11-junk-before-unit", _kf_junk(_TU, "timeUnits", v, u))
    pre: not _K("C11-empty-number-raises", _kf_empty_number(_TU, "timeUnits", v, u))
    post: _
    """
    chfloat.exact(False)
    tag = HedTag("C/" + v + " " + u, MINI_U)
    return _agree(tag, _HVU, _TU, "timeUnits", v, u)


def prefix_unit_agree(a: str, b: str) -> bool:
    """
    pre: len(a) <= 4 and 1 <= len(b) <= 8
    pre: _vu_cell(a, b)
    pre: R.ascii_printable(a) and R.ascii_printable(b)
    pre: " " not in b and "/" not in a and "/" not in b
    pre: not _K("C11-name-case-conversion", _kf_case(_TU, "currencyUnits", b))
    pre: not _K("C11-junk-before-unit", _kf_junk(_TU, "currencyUnits", a, b))
    pre: not _K("C11-empty-number-raises", _kf_empty_number(_TU, "currencyUnits", a, b))
    post: _
    """
    chfloat.exact(False)
    tag = HedTag("M/" + a + " " + b, MINI_U)
    return _agree(tag, _HVU, _TU, "currencyUnits", a, b)


def numeric_pattern(v: str) -> bool:
    """
    pre: len(v) <= R.N(4)
    pre: R.scell(v, _VC)
    pre: not _K("C11-unicode-digits", _kf_unidigit(v))
    pre: not _K("C11-numeric-trailing-newline", _kf_newline(v))
    post: _
    """
    got = bool(_CV.is_valid_value(v, "numericClass"))
    return got == U.is_number(v)


def bare_number(v: str) -> bool:
    """
    pre: 1 <= len(v) <= R.N(4)
    pre: R.scell(v, _VC)
    pre: R.ascii_printable(v)
    pre: " " not in v and "/" not in v
    post: _
    """
    chfloat.exact(False)
    tag = HedTag("C/" + v, MINI)
    issues = _HV.validate_units(tag)
    if U.is_number(v):
        if [(i["code"], i["severity"]) for i in issues] != [("UNITS_MISSING", ErrorSeverity.WARNING)]:
            return False
        return isinstance(tag.value_as_default_unit(), float)
    return _errors(issues) != []


_TT = ["hed.models.hed_tag.HedTag._get_tag_units_portion", "hed.models.hed_tag.HedTag.get_stripped_unit_value",
       "hed.models.hed_tag.HedTag.value_as_default_unit", "hed.models.hed_tag.HedTag.default_unit",
       "hed.schema.hed_schema_entry.UnitClassEntry.get_derivative_unit_entry",
       "hed.schema.hed_schema_entry.UnitEntry.get_conversion_factor",
       "hed.schema.hed_schema_entry.UnitEntry.finalize_entry",
       "hed.schema.hed_schema_entry.UnitEntry._get_conversion_factor",
       "hed.schema.hed_schema.HedSchema._get_modifiers_for_unit",
       "hed.validator.hed_validator.HedValidator.validate_units",
       "hed.validator.util.class_util.UnitValueValidator.check_tag_unit_class_units_are_valid",
       "hed.validator.util.class_util.UnitValueValidator._check_value_class",
       "hed.validator.util.class_util.UnitValueValidator._check_units",
       "hed.validator.util.char_util.CharRexValidator.is_valid_value"]

HARNESSES = [
    R.H("unit_accept_convert", _TT,
        quick=R.tier(cells=R.str_cells(4, split1_from=2, nclass=NUC, minlen=1), env={"VP_N": 4}, timeout=300,
                     bound="C/3 <u>, every blank-free printable-ASCII unit text u with 1 <= len(u) <= 4"),
        what="", oracle="models/units_ref.py"),
    R.H("value_unit_agree", _TT,
        quick=R.tier(cells=_vu_cells(2, 2, split_v_from=2), timeout=300, bound=""),
        what="", oracle="models/units_ref.py"),
    R.H("prefix_unit_agree", _TT,
        quick=R.tier(cells=_vu_cells(2, 2, split_v_from=2, extra=[(1, 4), (1, 6)]), timeout=300, bound=""),
        what="", oracle="models/units_ref.py"),
    R.H("numeric_pattern", ["hed.validator.util.char_util.CharRexValidator.is_valid_value"],
        quick=R.tier(cells=R.str_cells(4, nclass=NVC), env={"VP_N": 4}, timeout=300, bound=""),
        what="", oracle="models/units_ref.py"),
    R.H("bare_number", _TT,
        quick=R.tier(cells=R.str_cells(4, nclass=NVC, minlen=1), env={"VP_N": 4}, timeout=300, bound=""),
        what="", oracle="models/units_ref.py"),
]
