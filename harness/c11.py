"""C11 - units are accepted and converted exactly as the schema defines them.

Real code under symbolic execution: HedTag.__init__ (tag resolution on the mini schema), HedTag.get_stripped_unit_value/
_get_tag_units_portion/value_as_default_unit/default_unit, UnitClassEntry.get_derivative_unit_entry (the derivative
table was built by the real loader: UnitEntry.finalize_entry/_get_conversion_factor), UnitEntry.get_conversion_factor,
HedValidator.validate_units -> UnitValueValidator.check_tag_unit_class_units_are_valid/_check_value_class/_check_units,
CharRexValidator.is_valid_value/get_problem_chars.
Schemas: vp.mini.MINI (`C/#`: numericClass + the REAL 8.3.0 timeUnits class with all 40 modifiers) and
vp.mini_units.MINI_U (same through the real loader, modifiers pruned to 4, extra root `M/#` with currencyUnits so that the
prefix unit `$` is reachable).
Reference: models/units_ref.py (tables parsed from the MediaWiki text; rules U1-U5, N1).

Kernels (DESIGN.md 3/C11):  (a) agreement validation <-> conversion: value_unit_agree, prefix_unit_agree, bare_number;
(b) accept set and conversion table against the reference: unit_accept_convert (full table, fixed number text);
(c) numeric pattern: numeric_pattern.
"""
from vp import reg as R
from vp import chx, chfloat, chre_dollar
from vp.mini import MINI, wiki_text
from vp.mini_units import MINI_U, WIKI as WIKI_U
from models import units_ref as U
from hed.models.hed_tag import HedTag
from hed.validator.hed_validator import HedValidator
from hed.validator.util.char_util import CharRexValidator
from hed.errors.error_types import ErrorSeverity

chx.install()
chre_dollar.install()   # `$` also matches before one trailing newline (CrossHair's model misses it)
chfloat.install()       # float(<symbolic text>): acceptance exact, value abstracted (see vp/chfloat.py)

_T = U.Table(wiki_text())          # reference tables for MINI   (real 8.3.0 unit classes, 40 modifiers)
_TU = U.Table(WIKI_U)               # reference tables for MINI_U (same, 4 modifiers; root M takes currencyUnits)
_HV = HedValidator(MINI)
_HVU = HedValidator(MINI_U)
_CV = CharRexValidator()
_CLS = "timeUnits"


def _errors(issues):
    return [i["code"] for i in issues if i["severity"] == ErrorSeverity.ERROR]


# ---------------------------------------------------------------- input shapes and partition helpers
# Every kernel takes the WHOLE tag text as one symbolic string (`C/3 ms`), constrained by `pre:` to the shape
# <fixed head><symbolic rest>.  (Measured: building the text as "C/" + v + " " + u from two symbolic strings makes
# every slice hed-python takes of it cost ~10x more solver calls.)

# classes of the first character of a unit text (last class: everything else)
_UC = ["s", "m", "d", "h", "y", "M", "S", "D", "H", "Y", "c", "k", "n", "p", "u"]
NUC = len(_UC) + 1
# classes of the first character of a number text
_VC = ["0", "1", "+", "-", ".", " ", "e"]
NVC = len(_VC) + 1
# the same for a bare value (no blank inside)
_VB = ["0", "1", "+", "-", ".", "e"]
NVB = len(_VB) + 1
# ... and for the first part of `M/<a> <b>` (a may be the prefix unit)
_VP = _VC + ["$"]
NVP = len(_VP) + 1


def _head(t, head):
    """t starts with the constant `head`"""
    if len(t) < len(head):
        return False
    for i in range(len(head)):
        if t[i] != head[i]:
            return False
    return True


def _none_of(t, start, chars):
    """no character of t[start:] is in `chars`"""
    for i in range(start, len(t)):
        for c in chars:
            if t[i] == c:
                return False
    return True


def _tail_cell(t, off, classes, nmax, nmin=0):
    """t[off:] has nmin..nmax characters and lies in the cell VP_LEN (exact length) / VP_C0 (class of its first
    character)"""
    n = len(t) - off
    if n < nmin or n > nmax:
        return False
    L = R.env_int("VP_LEN")
    if L is not None and n != L:
        return False
    c0 = R.env_int("VP_C0")
    if c0 is not None and (n < 1 or R.cls_of(t[off], classes) != c0):
        return False
    c1 = R.env_int("VP_C1")
    if c1 is not None and (n < 2 or R.cls_of(t[off + 1], classes) != c1):
        return False
    return True


def _blank(t):
    """index of the blank that separates the two parts of the extension of `X/<a> <b>` (the last one)"""
    lv = R.env_int("VP_LV")
    if lv is not None:
        return 2 + lv
    return t.rfind(" ")


def _ab_shape(t, head, amax, bmax, classes=None):
    """t == head + a + " " + b with len(head) == 2, b non-empty and blank-free, no "/" in a or b; cell VP_LV / VP_LU
    (exact lengths of a, b) / VP_CV (class of a[0])"""
    if classes is None:
        classes = _VC
    if not _head(t, head):
        return False
    k = _blank(t)
    if k < 2 or k >= len(t) - 1 or t[k] != " ":
        return False
    la = k - 2
    lb = len(t) - k - 1
    if la > amax or lb > bmax:
        return False
    lu = R.env_int("VP_LU")
    if lu is not None and lb != lu:
        return False
    cv = R.env_int("VP_CV")
    if cv is not None and (la < 1 or R.cls_of(t[2], classes) != cv):
        return False
    cv = R.env_int("VP_CV1")
    if cv is not None and (la < 2 or R.cls_of(t[3], classes) != cv):
        return False
    return _none_of(t, k + 1, " ") and _none_of(t, 2, "/")


def _ab_cells(pairs, split_a_from=None, split_b_from=99, split2_a_from=99, nclass=None):
    """one cell per (len a, len b) pair; cells with len(a) >= split_a_from or len(b) >= split_b_from (and a non-empty)
    are split by the class of a[0]; cells with len(a) >= split2_a_from by the classes of a[0] and a[1]"""
    out = []
    nclass = nclass or NVC
    for la, lb in pairs:
        if la >= max(2, split2_a_from):
            for i in range(nclass):
                for j in range(nclass):
                    out.append({"VP_LV": la, "VP_LU": lb, "VP_CV": i, "VP_CV1": j})
        elif la >= 1 and ((split_a_from is not None and la >= split_a_from) or lb >= split_b_from):
            for i in range(nclass):
                out.append({"VP_LV": la, "VP_LU": lb, "VP_CV": i})
        else:
            out.append({"VP_LV": la, "VP_LU": lb})
    return out


def _grid(amin, amax, bmax):
    return [(la, lb) for la in range(amin, amax + 1) for lb in range(1, bmax + 1)]


# ---------------------------------------------------------------- known findings (exact failing input classes)
def _post_unit(table, cls, text):
    """the Form `text` spells as a unit written BEHIND the number (U1-U3, not U4), else None"""
    f = table.match(cls, text)
    if f is not None and f.prefix_unit:
        return None
    return f


def _pre_unit(table, cls, text):
    """the Form `text` spells as a unit written IN FRONT of the number (U4), else None"""
    f = table.match(cls, text)
    if f is not None and not f.prefix_unit:
        return None
    return f


def _kf_case(table, cls, u):
    """C11-name-case-conversion: a unit NAME (not a symbol) that declares a conversion factor, written with at least
    one upper-case letter ('Seconds', 'MilliSecond', 'DAY'): accepted by validation, value_as_default_unit raises
    TypeError."""
    f = _post_unit(table, cls, u)
    return f is not None and not f.exact and f.factor is not None and u != u.lower()


def _kf_junk(table, cls, v, u):
    """C11-junk-before-unit: `<number> <anything> <unit>` - whatever stands between a valid number and a recognised
    unit is dropped silently: validation reports nothing, value_as_default_unit raises ValueError."""
    k = v.find(" ")
    return k >= 0 and U.is_number(v[:k]) and _post_unit(table, cls, u) is not None


def _kf_empty_number(table, cls, v, u):
    """C11-empty-number-raises: nothing in front of the blank and an unrecognised unit behind it (`C/ xyz`):
    value_as_default_unit raises ValueError instead of returning None."""
    return len(v) == 0 and _post_unit(table, cls, u) is None


def _kf_unidigit(v):
    """C11-unicode-digits: some character is a decimal digit (Unicode category Nd) outside ASCII."""
    for c in v:
        if ord(c) >= 128 and c.isdecimal():
            return True
    return False


def _kf_newline(v):
    """C11-numeric-trailing-newline: a valid number followed by exactly one LINE FEED (`$` matches before it)."""
    return len(v) >= 1 and v[len(v) - 1] == chr(10) and U.is_number(v[:len(v) - 1])


# ---------------------------------------------------------------- kernels
def unit_accept_convert(t: str) -> bool:
    """
    pre: _head(t, "C/3 ")
    pre: _tail_cell(t, 4, _UC, R.N(4), 1)
    pre: R.ascii_printable(t)
    pre: _none_of(t, 4, " /")
    pre: not R.known("C11-name-case-conversion", _kf_case(_T, _CLS, t[4:]))
    post: _
    """
    chfloat.exact(True)                         # the number text is the constant "3": CPython's own float("3")
    u = t[4:]
    tag = HedTag(t, MINI)
    errs = _errors(_HV.validate_units(tag))
    stripped, unit = tag.get_stripped_unit_value(tag.extension)
    val = tag.value_as_default_unit()           # must never raise
    f = _post_unit(_T, _CLS, u)
    if f is None:
        return "UNITS_INVALID" in errs and unit is None and val is None
    if errs != [] or stripped != "3" or unit != u:
        return False
    if f.factor is None:
        return val is None
    return val == 3.0 * f.factor


def _agree(tag, hv, table, cls, a, b):
    """extension `a b` (b blank-free): validation verdict, value_as_default_unit and the reference agree"""
    errs = _errors(hv.validate_units(tag))
    f = _post_unit(table, cls, b)
    num = a
    if f is None:
        f = _pre_unit(table, cls, a)
        num = b
    if f is None:                                           # no recognised unit on either side
        if errs == []:
            return False
        if U.is_number(a) and "UNITS_INVALID" not in errs:
            return False
        val = tag.value_as_default_unit()                   # must not raise
        if a == "":
            # "C/ x": nothing in front of the blank.  The library reads this as the bare value "x" (so "C/ 0" converts
            # to 0.0 while validation rejects the spelling); the property only rules out an exception here.
            return True
        return val is None                                  # absent, not an exception
    if not U.is_number(num):                                # recognised unit, but what goes with it is not a number
        return errs != []
    if errs != []:
        return False
    val = tag.value_as_default_unit()                       # accepted: must not raise
    if f.factor is None:
        return val is None
    return isinstance(val, float)


def value_unit_agree(t: str) -> bool:
    """
    pre: _ab_shape(t, "C/", 4, 8)
    pre: R.ascii_printable(t)
    pre: not R.known("C11-name-case-conversion", _kf_case(_TU, "timeUnits", t[_blank(t) + 1:]))
    pre: not R.known("C11-junk-before-unit", _kf_junk(_TU, "timeUnits", t[2:_blank(t)], t[_blank(t) + 1:]))
    pre: not R.known("C11-empty-number-raises", _kf_empty_number(_TU, "timeUnits", t[2:_blank(t)], t[_blank(t) + 1:]))
    post: _
    """
    chfloat.exact(False)
    k = _blank(t)
    return _agree(HedTag(t, MINI_U), _HVU, _TU, "timeUnits", t[2:k], t[k + 1:])


def prefix_unit_agree(t: str) -> bool:
    """
    pre: _ab_shape(t, "M/", 4, 8, _VP)
    pre: R.ascii_printable(t)
    pre: not R.known("C11-name-case-conversion", _kf_case(_TU, "currencyUnits", t[_blank(t) + 1:]))
    pre: not R.known("C11-junk-before-unit", _kf_junk(_TU, "currencyUnits", t[2:_blank(t)], t[_blank(t) + 1:]))
    pre: not R.known("C11-empty-number-raises", _kf_empty_number(_TU, "currencyUnits", t[2:_blank(t)], t[_blank(t) + 1:]))
    post: _
    """
    chfloat.exact(False)
    k = _blank(t)
    return _agree(HedTag(t, MINI_U), _HVU, _TU, "currencyUnits", t[2:k], t[k + 1:])


def numeric_pattern(v: str) -> bool:
    """
    pre: _tail_cell(v, 0, _VC, R.N(4))
    pre: not R.known("C11-unicode-digits", _kf_unidigit(v))
    pre: not R.known("C11-numeric-trailing-newline", _kf_newline(v))
    post: _
    """
    got = bool(_CV.is_valid_value(v, "numericClass"))
    return got == U.is_number(v)


def bare_number(t: str) -> bool:
    """
    pre: _head(t, "C/")
    pre: _tail_cell(t, 2, _VB, R.N(3), 1)
    pre: R.ascii_printable(t)
    pre: _none_of(t, 2, " /#")
    post: _
    """
    chfloat.exact(False)
    v = t[2:]
    tag = HedTag(t, MINI)
    issues = _HV.validate_units(tag)
    if U.is_number(v):
        if [(i["code"], i["severity"]) for i in issues] != [("UNITS_MISSING", ErrorSeverity.WARNING)]:
            return False
        return isinstance(tag.value_as_default_unit(), float)
    return _errors(issues) != []


_TT = ["hed.models.hed_tag.HedTag._get_tag_units_portion", "hed.models.hed_tag.HedTag.get_stripped_unit_value",
       "hed.models.hed_tag.HedTag.value_as_default_unit", "hed.models.hed_tag.HedTag.default_unit",
       "hed.schema.hed_schema_entry.UnitClassEntry.get_derivative_unit_entry",
       "hed.schema.hed_schema_entry.UnitEntry.get_conversion_factor",
       "hed.schema.hed_schema_entry.UnitEntry.finalize_entry",
       "hed.schema.hed_schema_entry.UnitEntry._get_conversion_factor",
       "hed.schema.hed_schema.HedSchema._get_modifiers_for_unit",
       "hed.validator.hed_validator.HedValidator.validate_units",
       "hed.validator.util.class_util.UnitValueValidator.check_tag_unit_class_units_are_valid",
       "hed.validator.util.class_util.UnitValueValidator._check_value_class",
       "hed.validator.util.class_util.UnitValueValidator._check_units",
       "hed.validator.util.char_util.CharRexValidator.is_valid_value"]

_STUBS = ["vp.chx: ASCII-exact z3 model of str.casefold/lower (inputs are printable ASCII)",
          "vp.chfloat: float(<symbolic text>) - acceptance decided exactly by a recogniser of CPython's float grammar; "
          "the VALUE is CPython's own for the fixed number text of unit_accept_convert and an unconstrained float "
          "elsewhere (no assertion depends on it)",
          "vp.chre_dollar: CrossHair's regex model repaired so that `$` also matches before one trailing newline "
          "(CPython semantics; stock CrossHair 0.0.110 misses it)",
          "tags are built with HedTag(text, schema) directly (no HedString tokenizer in front)"]
_OUT = ("unit texts longer than the bound; non-ASCII unit text; a '/' inside the value; the numeric product "
        "number x factor for symbolic numbers and its linearity over IEEE doubles; the unit classes of the bundled "
        "schemas other than timeUnits (and currencyUnits for the prefix unit); plural forms other than '+s'")

HARNESSES = [
    R.H("unit_accept_convert", _TT,
        quick=R.tier(cells=R.str_cells(4, split1_from=2, nclass=NUC, minlen=1), env={"VP_N": 4}, timeout=300,
                     bound="tag `C/3 <u>` on MINI (real 8.3.0 timeUnits: 7 units x 40 modifiers = 73 spellings), every "
                           "printable-ASCII unit text u without blank or '/', 1 <= len(u) <= 4"),
        thorough=R.tier(cells=R.str_cells(8, split1_from=2, nclass=NUC, minlen=1), env={"VP_N": 8}, timeout=1500,
                        path_timeout=60,
                        bound="same, 1 <= len(u) <= 8 (all symbol spellings, all unprefixed names singular and plural)"),
        what="accept set and conversion table against the reference: u spells a timeUnits unit (name singular/plural in "
             "any letter case, symbol in exact case, with an SI prefix the unit permits) <=> validate_units reports no "
             "error and get_stripped_unit_value returns ('3', u); otherwise UNITS_INVALID is reported and no unit is "
             "returned; value_as_default_unit never raises and returns exactly 3.0 x unit factor x prefix factor when "
             "the unit declares a conversion factor, None when it declares none or u is not a unit",
        oracle="models/units_ref.py Table.match / Form.factor (rules U1-U5 over the MediaWiki text of the schema)",
        stubs=_STUBS, outside=_OUT),
    R.H("value_unit_agree", _TT,
        quick=R.tier(cells=_ab_cells(_grid(0, 2, 2), split_a_from=2), timeout=300,
                     bound="tag `C/<v> <u>` on MINI_U (real timeUnits, modifiers pruned to milli, kilo, m, M), printable "
                           "ASCII without '/', u blank-free: len(v) <= 2, 1 <= len(u) <= 2"),
        thorough=R.tier(cells=_ab_cells(_grid(0, 1, 4) + [(2, 1), (2, 2), (2, 3), (3, 1)], split_a_from=1,
                                        split2_a_from=3), timeout=1500, path_timeout=60,
                        bound="same: len(v) <= 1 and 1 <= len(u) <= 4, or len(v) == 2 and 1 <= len(u) <= 3, or "
                              "len(v) == 3 and len(u) == 1"),
        what="agreement of validation, conversion and reference on number text x unit text: validate_units reports no "
             "error <=> v is a number (N1) and u spells a unit; no recognised unit => an error is reported (UNITS_INVALID "
             "when v is a number) and value_as_default_unit returns None without raising; accepted => "
             "value_as_default_unit does not raise and returns a float iff the unit declares a conversion factor",
        oracle="models/units_ref.py Table.match, is_number", stubs=_STUBS, outside=_OUT),
    R.H("prefix_unit_agree", _TT,
        quick=R.tier(cells=_ab_cells(_grid(1, 2, 2), split_a_from=2, nclass=NVP), timeout=300,
                     bound="tag `M/<a> <b>` on MINI_U (M/# takes the real currencyUnits: $ {unitPrefix}, dollar, euro, "
                           "point), printable ASCII without '/', b blank-free: 1 <= len(a) <= 2 and 1 <= len(b) <= 2"),
        thorough=R.tier(cells=_ab_cells(_grid(1, 2, 2) + [(3, 1), (1, 4), (2, 4)], split_a_from=1, split2_a_from=3,
                                        nclass=NVP), timeout=1500, path_timeout=60,
                        bound="same: 1 <= len(a) <= 2 and 1 <= len(b) <= 2, or (len a, len b) in (3,1),(1,4),(2,4)"),
        what="same agreement where the unit class has a prefix unit: accepted <=> (a is a number and b spells a unit "
             "written behind the number) or (a spells a unitPrefix unit and b is a number); `3 $` and `dollar 3` are "
             "rejected; value defined iff accepted and the unit declares a conversion factor",
        oracle="models/units_ref.py Table.match (rule U4), is_number", stubs=_STUBS, outside=_OUT),
    R.H("numeric_pattern", ["hed.validator.util.char_util.CharRexValidator.is_valid_value"],
        quick=R.tier(cells=R.str_cells(4, split1_from=4, nclass=NVC), env={"VP_N": 4}, timeout=300,
                     bound="every Unicode string v with len(v) <= 4"),
        thorough=R.tier(cells=R.str_cells(5, split1_from=3, split2_from=5, nclass=NVC), env={"VP_N": 5}, timeout=1500,
                        path_timeout=60, bound="every Unicode string v with len(v) <= 5"),
        what="CharRexValidator.is_valid_value(v, 'numericClass') (the pattern of class_regex.json that decides numeric "
             "values) accepts v <=> v is [+-]?(d+(.d*)?|.d+)([eE][+-]?d+)? over the ten ASCII digits",
        oracle="models/units_ref.py is_number (hand-written recogniser, rule N1)",
        stubs=[_STUBS[2]], outside="strings longer than the bound; the legacy helper is_numeric_value_class (not on the "
                                   "validation path)"),
    R.H("bare_number", _TT,
        quick=R.tier(cells=R.str_cells(3, split1_from=3, nclass=NVB, minlen=1), env={"VP_N": 3}, timeout=300,
                     bound="tag `C/<v>` on MINI, printable ASCII v without blank, '/' or '#', 1 <= len(v) <= 3"),
        thorough=R.tier(cells=R.str_cells(5, split1_from=3, nclass=NVB, minlen=1), env={"VP_N": 5}, timeout=1500,
                        path_timeout=60, bound="same, 1 <= len(v) <= 5"),
        what="a bare value: v is a number (N1) <=> validate_units reports exactly one issue, the UNITS_MISSING warning, "
             "and value_as_default_unit returns a float (default unit); otherwise an error is reported",
        oracle="models/units_ref.py is_number", stubs=_STUBS, outside=_OUT + "; the placeholder '#'"),
]
