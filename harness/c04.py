"""C04 — the validation outcome does not depend on how an annotation is written."""
from vp import reg as R
from vp import chx, astpatch
from vp.stubs import NOSCHEMA
from hed.models.hed_string import HedString
from hed.models.hed_tag import HedTag
from hed.models.hed_group import HedGroup
from hed.validator.util.group_util import GroupValidator
from hed.validator.util.string_util import StringValidator

chx.install()
astpatch.is_to_eq(HedString, "split_into_groups")
try:
    from vp import chx_hash
    chx_hash.install()
except ImportError:  # accelerator only
    pass

_GV = GroupValidator(NOSCHEMA)
_SV = StringValidator()
ALPHA = "abA"          # 'a' and 'A' are the same tag in another letter case


def _cell3(x1, x2, alpha=ALPHA):
    k = R.env_int("VP_K")
    if k is None:
        return True
    return alpha.index(x1) * len(alpha) + alpha.index(x2) == k


# ---------------------------------------------------------------- duplicates under reordering
def _l(x):
    """reference case folding for the harness alphabet"""
    if x == "A":
        return "a"
    if x == "B":
        return "b"
    return x


def _b(v):
    return 1 if v else 0


def _tree(node):
    """str -> HedTag, list -> HedGroup (real objects, built through the public constructors)"""
    if isinstance(node, str):
        return HedTag(node, NOSCHEMA)
    return HedGroup(contents=[_tree(n) for n in node])


def _count(top):
    """number of TAG_EXPRESSION_REPEATED issues the real duplicate check reports for this top level list"""
    hs = HedString("", NOSCHEMA, _contents=[_tree(n) for n in top])
    issues = _GV._check_for_duplicate_groups(hs)
    for i in issues:
        if i["code"] != "TAG_EXPRESSION_REPEATED":
            return -1
    return len(issues)


def _perm3(items, p):
    a, b, c = items
    if p == 0:
        return [a, b, c]
    if p == 1:
        return [a, c, b]
    if p == 2:
        return [b, a, c]
    if p == 3:
        return [b, c, a]
    if p == 4:
        return [c, a, b]
    return [c, b, a]


def dup_groups(x1: str, x2: str, x3: str, x4: str, x5: str, p: int, sw1: bool, sw3: bool) -> bool:
    """
    pre: len(x1) == 1 and len(x2) == 1 and len(x3) == 1 and len(x4) == 1 and len(x5) == 1
    pre: x1 in ALPHA and x2 in ALPHA and x3 in ALPHA and x4 in ALPHA and x5 in ALPHA
    pre: 0 <= p <= 5
    pre: _cell3(x1, x2)
    pre: R.env_int("VP_FIX") is None or x3 == "b"
    post: _
    """
    # shape  (x1,x2),(x3),(x4,x5) written in any of the 6 group orders, members of group 1 / 3 optionally swapped
    l1, l2, l4, l5 = _l(x1), _l(x2), _l(x4), _l(x5)
    same_group = (l1 == l4 and l2 == l5) or (l1 == l5 and l2 == l4)
    expected = _b(l1 == l2) + _b(l4 == l5) + _b(same_group)
    g1 = [x2, x1] if sw1 else [x1, x2]
    g3 = [x5, x4] if sw3 else [x4, x5]
    return _count(_perm3([g1, [x3], g3], p)) == expected


def dup_nested(x1: str, x2: str, x3: str, x4: str, x5: str, p: int, sw: bool) -> bool:
    """
    pre: len(x1) == 1 and len(x2) == 1 and len(x3) == 1 and len(x4) == 1 and len(x5) == 1
    pre: x1 in ALPHA and x2 in ALPHA and x3 in ALPHA and x4 in ALPHA and x5 in ALPHA
    pre: 0 <= p <= 5
    pre: _cell3(x2, x3)
    pre: R.env_int("VP_FIX") is None or x1 == "b"
    post: _
    """
    # shape  x1,(x2,(x3,x4)),(x5,(x4,x3)) : the two outer groups are equal iff x2 ~ x5 (their inner groups always are)
    expected = 2 * _b(_l(x3) == _l(x4)) + _b(_l(x2) == _l(x5))
    b = [[x3, x4], x2] if sw else [x2, [x3, x4]]
    c = [x5, [x4, x3]]
    return _count(_perm3([x1, b, c], p)) == expected


def dup_nesting(x1: str, x2: str, x3: str, x4: str, x5: str, p: int) -> bool:
    """
    pre: len(x1) == 1 and len(x2) == 1 and len(x3) == 1 and len(x4) == 1 and len(x5) == 1
    pre: x1 in ALPHA and x2 in ALPHA and x3 in ALPHA and x4 in ALPHA and x5 in ALPHA
    pre: 0 <= p <= 5
    pre: _cell3(x1, x2)
    post: _
    """
    # shape  (x1,(x2)), ((x3,x4)), ((x5),x1) in any order: three siblings made of the same kind of tags but nested
    # differently.  The first and third are the same group iff x2 ~ x5; the middle one never equals either.
    expected = _b(_l(x2) == _l(x5)) + _b(_l(x3) == _l(x4))
    return _count(_perm3([[x1, [x2]], [[x3, x4]], [[x5], x1]], p)) == expected


def dup_tags(x1: str, x2: str, x3: str, x4: str, p: int) -> bool:
    """
    pre: len(x1) == 1 and len(x2) == 1 and len(x3) == 1 and len(x4) == 1
    pre: x1 in "abAB" and x2 in "abAB" and x3 in "abAB" and x4 in "abAB"
    pre: 0 <= p <= 5
    pre: _cell3(x1, x2, "abAB")
    post: _
    """
    # shape  x1,x2,x3,(x4,x1) : top-level tags in any order; k equal tags among siblings => k-1 reports
    l1, l2, l3 = _l(x1), _l(x2), _l(x3)
    top = _b(l1 == l2) + _b(l3 == l1 or l3 == l2)
    expected = top + _b(_l(x4) == l1)
    return _count(_perm3([x1, x2, x3], p) + [[x1, x4]]) == expected


# ---------------------------------------------------------------- blanks
def _delim_codes(s):
    return sorted([i["code"] for i in _SV.check_delimiter_issues_in_hed_string(s)])


def _tag_texts(s):
    return [s[a:b] for is_tag, (a, b) in HedString.split_hed_string(s) if is_tag]


def blank_invariance(s: str, i: int) -> bool:
    """
    pre: 1 <= len(s) <= R.N(4)
    pre: R.scell(s)
    pre: R.ascii_printable(s)
    pre: 0 <= i <= len(s)
    pre: (i < len(s) and s[i] in ",()") or (i > 0 and s[i - 1] in ",()")
    post: _
    """
    s2 = s[:i] + " " + s[i:]
    if _delim_codes(s) != _delim_codes(s2):
        return False
    return _tag_texts(s) == _tag_texts(s2)


def _tree_texts(children):
    out = []
    for c in children:
        if isinstance(c, HedTag):
            out.append(c.org_tag)
        else:
            out.append(_tree_texts(c.children))
    return out


def blank_tree_invariance(s: str, i: int) -> bool:
    """
    pre: 1 <= len(s) <= R.N(3)
    pre: R.scell(s)
    pre: R.ascii_printable(s)
    pre: 0 <= i <= len(s)
    pre: (i < len(s) and s[i] in ",()") or (i > 0 and s[i - 1] in ",()")
    post: _
    """
    # the parse tree (nesting and tag texts) is the same with one more blank next to a comma or parenthesis
    s2 = s[:i] + " " + s[i:]
    return _tree_texts(HedString(s, NOSCHEMA).children) == _tree_texts(HedString(s2, NOSCHEMA).children)


_TD = ["hed.models.hed_group.HedGroup._sorted", "hed.validator.util.group_util.GroupValidator._check_for_duplicate_groups",
       "hed.validator.util.group_util.GroupValidator._check_for_duplicate_groups_recursive",
       "hed.models.hed_tag.HedTag.__eq__", "hed.models.hed_string.HedString.split_into_groups"]
_ST = ["NoSchema stub (tags compare by case-folded text)", "chx ASCII casefold accelerator",
       "trees are built with the public constructors HedTag/HedGroup(contents=)/HedString(_contents=) instead of "
       "parsing text (parsing is C02's subject)"]
_CELLS9 = R.int_cells("VP_K", 0, 8)

HARNESSES = [
    R.H("dup_groups", _TD,
        quick=R.tier(cells=_CELLS9, env={"VP_FIX": 1}, timeout=200,
                     bound="shape (x1,x2),(b),(x4,x5), each xi any of {a,b,A}; all 6 orders of the groups x member "
                           "swaps in groups 1 and 3"),
        thorough=R.tier(cells=_CELLS9, timeout=1200,
                        bound="shape (x1,x2),(x3),(x4,x5), each xi any of {a,b,A}; all 6 orders x member swaps"),
        what="for every way of writing the annotation the duplicate check reports exactly one "
             "TAG_EXPRESSION_REPEATED per extra copy among siblings (tags equal up to letter case, groups up to "
             "member order) - so the multiset of codes is invariant under reordering and no repeat is missed",
        oracle="closed-form count over case-folded letters", stubs=_ST,
        outside="other shapes / deeper nesting / longer tag names; bundled schemas"),
    R.H("dup_nested", _TD,
        quick=R.tier(cells=_CELLS9, env={"VP_FIX": 1}, timeout=200,
                     bound="shape b,(x2,(x3,x4)),(x5,(x4,x3)), xi in {a,b,A}, 6 outer orders x member swap"),
        thorough=R.tier(cells=_CELLS9, timeout=1200,
                        bound="shape x1,(x2,(x3,x4)),(x5,(x4,x3)), xi in {a,b,A}, 6 outer orders x member swap"),
        what="same as dup_groups one level down", oracle="as dup_groups", stubs=_ST,
        outside="as dup_groups"),
    R.H("dup_nesting", _TD,
        quick=R.tier(cells=_CELLS9, timeout=300,
                     bound="shape (x1,(x2)),((x3,x4)),((x5),x1), xi in {a,b,A}, all 6 sibling orders"),
        what="groups with the same tags but different nesting are never confused: a repeat is reported iff the two "
             "equally nested groups have equal members, whatever sits between them",
        oracle="closed-form count over case-folded letters", stubs=_ST, outside="as dup_groups"),
    R.H("dup_tags", _TD,
        quick=R.tier(cells=R.int_cells("VP_K", 0, 15), timeout=200, bound="shape x1,x2,x3,(x4,x1), xi in {a,b,A,B}, 6 orders of the top-level tags"),
        what="repeated top-level tag reported wherever the copies sit and in whatever letter case",
        oracle="as dup_groups", stubs=_ST, outside="as dup_groups"),
    R.H("blank_tree_invariance", ["hed.models.hed_string.HedString.split_into_groups",
                                  "hed.models.hed_string.HedString.split_hed_string", "hed.models.hed_string.HedString.__init__"],
        quick=R.tier(cells=R.str_cells(3, split1_from=3, minlen=1), env={"VP_N": 3}, timeout=300,
                     bound="every printable-ASCII s, 1 <= len(s) <= 3, one blank inserted next to a comma or parenthesis"),
        thorough=R.tier(cells=R.str_cells(4, split1_from=3, split2_from=4, minlen=1), env={"VP_N": 4}, timeout=1500,
                        bound="same with len(s) <= 4"),
        what="the parse tree (nesting and tag texts) is unchanged by the inserted blank",
        oracle="second run of the real parser", stubs=_ST, outside="longer strings"),
    R.H("blank_invariance",
        ["hed.validator.util.string_util.StringValidator.check_delimiter_issues_in_hed_string",
         "hed.models.hed_string.HedString.split_hed_string"],
        quick=R.tier(cells=R.str_cells(3, split1_from=3, minlen=1), env={"VP_N": 3}, timeout=200,
                     bound="every printable-ASCII s, 1 <= len(s) <= 3, one blank inserted at any position adjacent "
                           "to a comma or parenthesis"),
        thorough=R.tier(cells=R.str_cells(4, split1_from=3, split2_from=4, minlen=1), env={"VP_N": 4}, timeout=1200,
                        bound="same with len(s) <= 4"),
        what="delimiter-issue codes and the tag texts are unchanged by the inserted blank",
        oracle="second run of the real code", stubs=[], outside="blanks inside tags; longer strings"),
]
