"""C19 — the schema cache never serves or keeps a torn schema file; lock / refresh-interval protocol."""
from vp import reg as R
from vp import memfs
from vp.fakelock import FakePortalocker, FakeTime, Registry, Num
from hed.schema import hed_cache, hed_cache_lock
from hed.schema.hed_cache_lock import CacheLock, CacheException

LOCKFILE = "/cache/cache_lock.lock"
STAMP = "/cache/last_update.txt"


class _Env:
    """swap os/open/shutil/time/portalocker/INSTALLED_CACHE_LOCATION in hed_cache and hed_cache_lock"""

    def __init__(self, fs, now, reg):
        self.fs, self.now, self.reg = fs, now, reg
        self.p = memfs.Patch(fs, [hed_cache, hed_cache_lock])

    def __enter__(self):
        self.p.__enter__()
        self.saved = (hed_cache_lock.time, hed_cache_lock.portalocker, hed_cache.INSTALLED_CACHE_LOCATION,
                      hed_cache.copyfile)
        hed_cache_lock.time = FakeTime(self.now)
        hed_cache_lock.portalocker = FakePortalocker(self.reg)
        hed_cache.INSTALLED_CACHE_LOCATION = "/inst"
        hed_cache.copyfile = self.fs.copy
        return self

    def __exit__(self, *a):
        (hed_cache_lock.time, hed_cache_lock.portalocker, hed_cache.INSTALLED_CACHE_LOCATION,
         hed_cache.copyfile) = self.saved
        self.p.__exit__(*a)
        return False


def lock_protocol(now: int, last_kind: int, threshold: int, write_time: bool, busy: bool) -> bool:
    """
    pre: 0 <= last_kind <= 1
    pre: 0 <= now and 0 <= threshold
    post: _
    """
    fs = memfs.MemFS()
    reg = Registry(fs)
    last = 0
    if last_kind == 1:
        fs.makedirs("/cache")
        fs._set(STAMP, "1000")
        last = 1000
    if busy:
        reg.foreign.append(LOCKFILE)
    too_recent = (now - last) < threshold
    with _Env(fs, Num(now), reg):
        stamp_before = fs.files.get(STAMP)
        lock = CacheLock("/cache", write_time=write_time, time_threshold=Num(threshold))
        entered = False
        try:
            with lock:
                entered = True
                # inside the with-body the lock must really be held ...
                mine = [f for f, _ in reg.held]
                if mine != [LOCKFILE]:
                    return False
                # ... so a second holder for the same directory cannot get in: it gives up with CacheException
                second_in = False
                try:
                    with CacheLock("/cache", write_time=False, time_threshold=Num(threshold)):
                        second_in = True
                except CacheException:
                    pass
                if second_in:
                    return False
        except CacheException:
            if entered:
                return False
            # refused: legal only if too recent or the lock is taken elsewhere; nothing written, nothing held
            if not (too_recent or busy):
                return False
            return reg.held == [] and fs.files.get(STAMP) == stamp_before
        # entered and left normally
        if too_recent or busy:
            return False
        if reg.held != []:
            return False
        if write_time:
            return fs.files.get(STAMP) == "<num>"
        return fs.files.get(STAMP) == stamp_before


VERS = ["8.0.0", "8.1.0"]
INST = ["/inst/HED8.0.0.xml", "/inst/HED8.1.0.xml"]
KMAX = 14


def _run(fs, k, cut, version):
    fs.ops = 0
    fs.crash_at = k
    fs.cut = cut
    try:
        hed_cache.get_hed_version_path(version, None, "/cache")
    except memfs.Crash:
        pass
    fs.crash_at = None


def populate_crash(k1: int, cut1: int, second: bool, k2: int, cut2: int, c0: str, c1: str) -> bool:
    """
    pre: 0 <= k1 <= KMAX and 0 <= k2 <= KMAX
    pre: -2 <= cut1 <= 2 and -2 <= cut2 <= 2
    pre: 1 <= len(c0) <= 2 and 1 <= len(c1) <= 2
    pre: second or (k2 == 0 and cut2 == 0)
    pre: R.env_int("VP_K") is None or k1 % 3 == R.env_int("VP_K")
    post: _
    """
    fs = memfs.MemFS()
    fs.makedirs("/inst/library_data")
    fs._set(INST[0], c0)
    fs._set(INST[1], c1)
    fs._set("/inst/library_data/library_data.json", "{}")
    reg = Registry(fs)
    with _Env(fs, 2000000000, reg):
        # process A: a load of version 8.0.0 on an empty cache triggers population; interrupted at step k1
        _run(fs, k1, cut1, VERS[0])
        reg.held = []                       # the OS drops a dead process's lock
        if second:
            # process B: another load, interrupted at step k2 (k2 beyond its last step = runs to completion)
            _run(fs, k2, cut2, VERS[1])
            reg.held = []
        # a later load of either bundled version, not interrupted
        for i in range(2):
            p = hed_cache.get_hed_version_path(VERS[i], None, "/cache")
            if p is None:
                return False                # bundled version cannot be loaded any more
            if fs.files.get(p) != fs.files[INST[i]]:
                return False                # served a torn / different file
        return True


_TL = ["hed.schema.hed_cache_lock.CacheLock.__enter__", "hed.schema.hed_cache_lock.CacheLock.__exit__",
       "hed.schema.hed_cache_lock._read_last_cached_time", "hed.schema.hed_cache_lock._write_last_cached_time"]
_TP = ["hed.schema.hed_cache.cache_local_versions", "hed.schema.hed_cache._copy_installed_folder_to_cache",
       "hed.schema.hed_cache.get_hed_versions", "hed.schema.hed_cache.get_hed_version_path",
       "hed.schema.hed_cache._create_xml_filename"] + _TL

HARNESSES = [
    R.H("lock_protocol", _TL,
        quick=R.tier(timeout=120, bound="every now >= 0 and threshold >= 0 (integers), timestamp file absent or "
                                        "'1000', write_time in {T,F}, lock free or held elsewhere"),
        what="__enter__ refuses with CacheException iff now-last < threshold or the lock is held elsewhere; "
             "inside the with-body the lock is really held and a second CacheLock for the same directory is "
             "refused; after exit the lock is released and the timestamp is written iff write_time",
        oracle="inline protocol predicate",
        stubs=["stub portalocker (Lock configures, acquire() takes, release() drops; registry = kernel lock table)",
               "stub clock returning a symbolic, format-inert number", "MemFS for the timestamp and lock files"],
        outside="real flock semantics across processes; float timestamps other than the two file states"),
    R.H("populate_crash", _TP,
        quick=R.tier(cells=R.int_cells("VP_K", 0, 2), timeout=240,
                     bound="populating load interrupted at any step k1 in [0,14] with torn cut in [-2,2]; optionally "
                           "a second populating load interrupted at any k2 in [0,14]; 2 bundled files with any "
                           "contents of 1-2 characters"),
        what="after any such history an uninterrupted load of each bundled version returns a path whose content "
             "equals the installed file (never None, never torn)",
        oracle="inline: served content == installed content",
        stubs=["MemFS swapped into hed_cache/hed_cache_lock globals; INSTALLED_CACHE_LOCATION -> /inst with two "
               "HED*.xml files and a sub-folder", "stub portalocker/clock as above"],
        outside="true interleavings of concurrently running processes (CrossHair executes one thread; only "
                "interrupt-then-run-another histories are covered); network refresh (cache_xml_versions)"),
]
