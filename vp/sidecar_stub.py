"""Stub for the JSON decoder seen by hed.models.sidecar (C08).

`json.load` is a C function; fed symbolic text it would realise every character.  The property quantifies
over *decoded* JSON documents, so the decoder is replaced -- only in module `hed.models.sidecar`, only for the
duration of one `load(doc)` call -- by an object whose `load(fp)` hands back the already decoded document that
the fake file carries.  Everything else (`Sidecar.__init__`, `load_sidecar_files`, `load_sidecar_file`,
`_load_json_file`, the merge into `loaded_dict`) is hed-python's own code.
Assumption stated in evidence: `json.load` returns exactly the JSON value (dict/list/str/int/bool/None).
"""
import json as _real_json

import hed.models.sidecar as _sidecar_mod
from hed.models.sidecar import Sidecar


class DecodedFile:
    """a 'file' whose JSON content is already decoded (truthy, not a str, so it reaches _load_json_file)"""

    def __init__(self, value):
        self.value = value

    def read(self):   # never used by the stub decoder; present so the object looks like a file
        raise AssertionError("the stub decoder does not read text")


class _JsonStub:
    decoder = _real_json.decoder
    dumps = staticmethod(_real_json.dumps)
    dump = staticmethod(_real_json.dump)

    @staticmethod
    def load(fp):
        return fp.value


def load(doc, name="sc"):
    """Sidecar(<file containing doc>) through the real constructor."""
    saved = _sidecar_mod.json
    _sidecar_mod.json = _JsonStub
    try:
        return Sidecar(DecodedFile(doc), name=name)
    finally:
        _sidecar_mod.json = saved
