"""Frame stub for C06: the handful of DataFrame operations that hed-python's assembly code uses, on plain lists.

pandas is a C extension: a symbolic cell text is realised the moment it enters a DataFrame/Series, so the
table is replaced by `Frame` -- an ordered mapping column name -> list of cell texts (all the same length).
Only what these hed-python functions call is provided, with the pandas meaning stated next to each method:

  BaseInput.combine_dataframe          df.apply(f, axis=1)
  BaseInput._handle_transforms         df[list], df[list] = frame, frame.astype(..), df.transform({col: f})
  df_util._handle_curly_braces_refs    df.copy(), df[list], df[name], df[name] = pd.Series(iterable)
  BaseInput.reset_mapper / columns     df.columns

`pd_stub` stands in for the name `pd` inside hed.models.df_util while `_handle_curly_braces_refs` runs
(`pd.Series(iterable)` -> list).  Assumptions (stated in the evidence): default RangeIndex (positional
alignment on assignment), every cell already a str, astype('category')/astype('str') leave string cell
values unchanged (the dtype round trip itself is pandas' business and outside the claim).
"""


class Frame:
    def __init__(self, columns, data=None):
        self.columns = list(columns)
        self.data = data if data is not None else {c: [] for c in self.columns}

    @classmethod
    def from_rows(cls, columns, rows):
        columns = list(columns)
        return cls(columns, {c: [row[i] for row in rows] for i, c in enumerate(columns)})

    def __len__(self):
        return len(self.data[self.columns[0]]) if self.columns else 0

    def rows(self):
        return [[self.data[c][i] for c in self.columns] for i in range(len(self))]

    def snapshot(self):
        return [list(self.columns), self.rows()]

    # ---- pandas surface
    def copy(self):
        """DataFrame.copy(): new frame, new column containers"""
        return Frame(self.columns, {c: list(self.data[c]) for c in self.columns})

    def __getitem__(self, key):
        """df[name] -> the column; df[[names]] -> a new frame of those columns in the given order
        (KeyError for an unknown name, as pandas)"""
        if isinstance(key, list):
            for c in key:
                if c not in self.data:
                    raise KeyError(c)
            return Frame(key, {c: list(self.data[c]) for c in key})
        return self.data[key]

    def __setitem__(self, key, value):
        """df[name] = iterable-of-cells (positional, must have the frame's length; a new name appends a column);
        df[[names]] = frame with the same column names"""
        if isinstance(key, list):
            for c in key:
                self[c] = list(value.data[c])
            return
        value = list(value)
        if self.columns and len(value) != len(self):
            raise ValueError("Length of values does not match length of index")
        if key not in self.data:
            self.columns.append(key)
        self.data[key] = value

    def astype(self, _dtype):
        """DataFrame.astype('category' | 'str') on string cells: same values, new object"""
        return self.copy()

    def transform(self, funcs):
        """DataFrame.transform({col: f}): new frame holding exactly the listed columns, in dict order, each cell
        mapped through its function (KeyError when a listed column does not exist, as pandas)"""
        out = Frame([], {})
        for c, f in funcs.items():
            if c not in self.data:
                raise KeyError(c)
            out.columns.append(c)
            out.data[c] = [f(x) for x in self.data[c]]
        return out

    def apply(self, f, axis=0):
        """DataFrame.apply(f, axis=1): f over the rows (each an iterable of the cells in column order);
        the resulting Series is a list here"""
        if axis != 1:
            raise NotImplementedError("frame stub: only apply(f, axis=1)")
        return [f(row) for row in self.rows()]


class pd_stub:
    """the name `pd` inside hed.models.df_util for the duration of a call"""

    @staticmethod
    def Series(values):
        return list(values)


def with_pd_stub(module, fn, *args, **kw):
    saved = module.pd
    module.pd = pd_stub
    try:
        return fn(*args, **kw)
    finally:
        module.pd = saved
