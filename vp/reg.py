"""Harness registry records, bound/cell helpers used inside `pre:` lines, known-finding switch.

Everything a harness reads from the environment goes through this module so that
quick and thorough tiers share one harness source:

  VP_N, VP_M ...   integer bounds (meaning stated per harness)
  VP_LEN           exact length of the partitioned string argument in this cell ("" = any <= VP_N)
  VP_C0, VP_C1     index of the character class of its first / second character ("" = any)
"""
import json
import os

VERIF = os.path.dirname(os.path.dirname(os.path.abspath(__file__)))


def env_int(name, default=None):
    v = os.environ.get(name, "")
    return int(v) if v != "" else default


def N(default=0):
    return env_int("VP_N", default)


def M(default=0):
    return env_int("VP_M", default)


# ---- character classes used for partitioning (a partition: last class is "everything else")
DELIMS = [",", "(", ")", " ", "/"]


def cls_of(ch, classes=DELIMS):
    """index of ch in classes, len(classes) if none (chained == on a symbolic char: cheap)."""
    i = 0
    for c in classes:
        if ch == c:
            return i
        i += 1
    return i


def scell(s, classes=DELIMS):
    """True iff string s lies in the cell selected by VP_LEN / VP_C0 / VP_C1."""
    L = env_int("VP_LEN")
    if L is not None and len(s) != L:
        return False
    c0 = env_int("VP_C0")
    if c0 is not None:
        if len(s) < 1 or cls_of(s[0], classes) != c0:
            return False
    c1 = env_int("VP_C1")
    if c1 is not None:
        if len(s) < 2 or cls_of(s[1], classes) != c1:
            return False
    c2 = env_int("VP_C2")
    if c2 is not None:
        if len(s) < 3 or cls_of(s[2], classes) != c2:
            return False
    return True


def str_cells(n, split1_from=None, split2_from=None, nclass=len(DELIMS) + 1, minlen=0, split3_from=None):
    """Disjoint cover of {s : minlen <= len(s) <= n}: one cell per length; lengths >= split1_from are
    split by the class of s[0]; lengths >= split2_from also by the class of s[1]; >= split3_from also s[2]."""
    cells = []
    for L in range(minlen, n + 1):
        if split3_from is not None and L >= max(split3_from, 3):
            for a in range(nclass):
                for b in range(nclass):
                    for c in range(nclass):
                        cells.append({"VP_LEN": L, "VP_C0": a, "VP_C1": b, "VP_C2": c})
        elif split2_from is not None and L >= max(split2_from, 2):
            for a in range(nclass):
                for b in range(nclass):
                    cells.append({"VP_LEN": L, "VP_C0": a, "VP_C1": b})
        elif split1_from is not None and L >= max(split1_from, 1):
            for a in range(nclass):
                cells.append({"VP_LEN": L, "VP_C0": a})
        else:
            cells.append({"VP_LEN": L})
    return cells


def int_cells(name, lo, hi):
    return [{name: i} for i in range(lo, hi + 1)]


def product_cells(*lists):
    out = [{}]
    for lst in lists:
        out = [dict(a, **b) for a in out for b in lst]
    return out


def ascii_printable(s):
    for c in s:
        if not (32 <= ord(c) < 127):
            return False
    return True


def over(s, alphabet):
    for c in s:
        if c not in alphabet:
            return False
    return True


# ---- known findings switch
_KF = None


def _load_kf():
    global _KF
    if _KF is None:
        p = os.path.join(VERIF, "known_findings.json")
        try:
            with open(p) as f:
                _KF = json.load(f).get("findings", [])
        except FileNotFoundError:
            _KF = []
    return _KF


def known_active(fid):
    """A finding id is excluded from the search only while known_findings.json lists it with
    status 'known'.  'fixed' entries exclude nothing."""
    if os.environ.get("VP_NO_EXCLUDE"):
        return False
    for f in _load_kf():
        if f.get("id") == fid and f.get("status") == "known":
            return True
    return False


def known(fid, verdict):
    """use in pre: `not R.known("C04-x", _pred(args))` (verdict computed by the harness's predicate)."""
    return bool(verdict) and known_active(fid)


class H:
    """One harness: a module-level function with PEP-316 pre/post lines."""

    def __init__(self, fn, targets, quick, thorough=None, what="", bounds="", stubs=(), oracle="",
                 outside=""):
        self.fn = fn                    # function name in the harness module
        self.targets = list(targets)    # dotted names in /repo that the harness executes symbolically
        self.tiers = {"quick": quick, "thorough": thorough or quick}
        self.what = what
        self.bounds = bounds
        self.stubs = list(stubs)
        self.oracle = oracle
        self.outside = outside


def tier(cells=None, env=None, timeout=60, path_timeout=20, bound=""):
    return {"cells": cells or [{}], "env": env or {}, "timeout": timeout, "path_timeout": path_timeout,
            "bound": bound}
