"""In-memory POSIX-ish file system used as the environment stub (crash-injectable)."""
import posixpath, io, json as _json

class Crash(BaseException):  # not caught by `except Exception`
    pass

class MemFS:
    def __init__(self):
        self.dirs = {"/"}
        self.files = {}       # path -> bytes/str content
        self.ops = 0
        self.crash_at = None  # op index at which to crash (before the op takes effect)
        self.torn = False     # if True a crashing write leaves a truncated file
        self.log = []
    def tick(self, what):
        self.log.append(what)
        if self.crash_at is not None and self.ops == self.crash_at:
            self.ops += 1
            raise Crash(what)
        self.ops += 1
    # --- os-like API
    def isdir(self, p): return posixpath.normpath(p) in self.dirs
    def exists(self, p):
        p = posixpath.normpath(p); return p in self.dirs or p in self.files
    def makedirs(self, p, exist_ok=False):
        p = posixpath.normpath(p)
        parts = p.strip("/").split("/")
        cur = ""
        for part in parts:
            cur += "/" + part
            if cur not in self.dirs:
                self.tick(("mkdir", cur))
                self.dirs.add(cur)
    def listdir(self, p):
        p = posixpath.normpath(p)
        out = set()
        for x in list(self.dirs) + list(self.files):
            if x != p and posixpath.dirname(x) == p:
                out.add(posixpath.basename(x))
        return sorted(out)
    def walk(self, root, topdown=True):
        root = posixpath.normpath(root)
        names = self.listdir(root)
        dirs = [n for n in names if posixpath.join(root, n) in self.dirs]
        files = [n for n in names if posixpath.join(root, n) in self.files]
        yield root, dirs, files
        for d in dirs:
            yield from self.walk(posixpath.join(root, d))
    def copy2(self, src, dst):
        data = self.files[posixpath.normpath(src)]
        dst = posixpath.normpath(dst)
        self.tick(("create", dst))
        self.files[dst] = data[:0]
        try:
            self.tick(("write", dst))
        except Crash:
            raise
        self.files[dst] = data
        return dst
    def open(self, path, mode="r", **kw):
        path = posixpath.normpath(path)
        fs = self
        if "w" in mode:
            fs.tick(("create", path))
            fs.files[path] = ""
            class W(io.StringIO):
                def close(s):
                    if not s.closed:
                        fs.tick(("write", path))
                        fs.files[path] = s.getvalue()
                    super().close()
                def __exit__(s, *a):
                    if a[0] is None: s.close()
                    else: io.StringIO.close(s)
            return W()
        return io.StringIO(fs.files[path])

class FakePath:
    def __init__(self, fs): self.fs = fs
    def __getattr__(self, n): return getattr(posixpath, n)
    def isdir(self, p): return self.fs.isdir(p)
    def exists(self, p): return self.fs.exists(p)
    def realpath(self, p): return posixpath.normpath(p)

class FakeOS:
    sep = "/"
    def __init__(self, fs):
        self.fs = fs; self.path = FakePath(fs)
    def makedirs(self, p, exist_ok=False): return self.fs.makedirs(p, exist_ok)
    def listdir(self, p): return self.fs.listdir(p)
    def walk(self, p, topdown=True): return self.fs.walk(p, topdown)

class FakeShutil:
    def __init__(self, fs): self.fs = fs
    def copy2(self, a, b): return self.fs.copy2(a, b)
    def copy(self, a, b): return self.fs.copy2(a, b)
