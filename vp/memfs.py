"""In-memory POSIX-like file system with crash injection (environment stub for C18/C19).

Granularity of interruption (one `tick` each): directory creation, file creation (an empty file becomes
visible), data write (on a crash a torn prefix/suffix-cut of the data becomes visible), rename/replace, remove.
Operations are atomic at that granularity and durable in program order; fsync / page-cache reordering is not
modelled.  `crash_at` and `cut` may be symbolic ints.

torn content on a crashing write:  cut >= 0 -> data[:cut]      (first `cut` characters reached the disk)
                                   cut <  0 -> data[:len+cut]  (all but the last |cut| characters did)
"""
import io
import posixpath


class Crash(BaseException):
    """Simulated power loss / kill -9.  BaseException so that `except Exception` in the code under test does
    not swallow it."""


class MemFS:
    def __init__(self):
        self.dirs = ["/"]
        self.files = {}        # path -> str  (paths are concrete; contents may be symbolic)
        self.order = []        # creation order of files (deterministic listings)
        self.ops = 0
        self.crash_at = None
        self.cut = 0
        self.log = []

    # ---- crash machinery
    def tick(self, what):
        self.log.append(what)
        n = self.ops
        self.ops = n + 1
        if self.crash_at is not None and n == self.crash_at:
            raise Crash(what)

    def _torn(self, data):
        c = self.cut
        if c >= 0:
            return data[:c] if c < len(data) else data[:max(len(data) - 1, 0)]
        k = len(data) + c
        return data[:k] if k > 0 else data[:0]

    def _set(self, path, data):
        if path not in self.files:
            self.order.append(path)
        self.files[path] = data

    def create(self, path):
        self.tick(("create", path))
        self._set(path, "")

    def write(self, path, data):
        try:
            self.tick(("write", path))
        except Crash:
            self._set(path, self._torn(data))
            raise
        self._set(path, data)

    # ---- os / os.path / shutil
    def isdir(self, p):
        return posixpath.normpath(p) in self.dirs

    def isfile(self, p):
        return posixpath.normpath(p) in self.files

    def exists(self, p):
        p = posixpath.normpath(p)
        return p in self.dirs or p in self.files

    def makedirs(self, p, exist_ok=False):
        p = posixpath.normpath(p)
        if p in self.dirs:
            if not exist_ok:
                raise FileExistsError(p)
            return
        cur = ""
        for part in p.strip("/").split("/"):
            cur += "/" + part
            if cur not in self.dirs:
                self.tick(("mkdir", cur))
                self.dirs.append(cur)

    def listdir(self, p):
        p = posixpath.normpath(p)
        if p not in self.dirs:
            raise FileNotFoundError(p)
        out = []
        for x in self.dirs + self.order:
            if x != p and posixpath.dirname(x) == p and (x in self.dirs or x in self.files):
                b = posixpath.basename(x)
                if b not in out:
                    out.append(b)
        return sorted(out)

    def walk(self, root, topdown=True):
        root = posixpath.normpath(root)
        names = self.listdir(root)
        dirs = [n for n in names if posixpath.join(root, n) in self.dirs]
        files = [n for n in names if posixpath.join(root, n) in self.files]
        yield root, dirs, files
        for d in dirs:
            yield from self.walk(posixpath.join(root, d))

    def copy(self, src, dst):
        src = posixpath.normpath(src)
        dst = posixpath.normpath(dst)
        if src not in self.files:
            raise FileNotFoundError(src)
        if dst in self.dirs:
            dst = posixpath.join(dst, posixpath.basename(src))
        data = self.files[src]
        self.create(dst)          # open(dst, 'wb') truncates / creates
        self.write(dst, data)     # data copied; a crash here leaves a torn file under the FINAL name
        return dst

    def replace(self, src, dst):
        src = posixpath.normpath(src)
        dst = posixpath.normpath(dst)
        self.tick(("replace", src, dst))
        if src in self.files:
            data = self.files.pop(src)
            self.order.remove(src)
            self._set(dst, data)
        elif src in self.dirs:
            # directory rename: move every entry below src
            for d in list(self.dirs):
                if d == src or d.startswith(src + "/"):
                    self.dirs[self.dirs.index(d)] = dst + d[len(src):]
            for f in list(self.order):
                if f.startswith(src + "/"):
                    data = self.files.pop(f)
                    self.order[self.order.index(f)] = dst + f[len(src):]
                    self.files[dst + f[len(src):]] = data
        else:
            raise FileNotFoundError(src)

    def remove(self, p):
        p = posixpath.normpath(p)
        if p not in self.files:
            raise FileNotFoundError(p)
        self.tick(("remove", p))
        del self.files[p]
        self.order.remove(p)

    def rmtree(self, p):
        p = posixpath.normpath(p)
        for f in list(self.order):
            if f.startswith(p + "/"):
                self.remove(f)
        for d in sorted([d for d in self.dirs if d == p or d.startswith(p + "/")], reverse=True):
            self.tick(("rmdir", d))
            self.dirs.remove(d)

    def open(self, path, mode="r", *a, **kw):
        path = posixpath.normpath(path)
        fs = self
        if "w" in mode or "a" in mode or "x" in mode:
            if posixpath.dirname(path) not in fs.dirs:
                raise FileNotFoundError(path)
            old = fs.files.get(path, "") if "a" in mode else ""
            fs.create(path)

            class W(io.StringIO):
                def close(s):
                    if not s.closed:
                        data = old + s.getvalue()
                        io.StringIO.close(s)
                        fs.write(path, data)

                def __exit__(s, et, ev, tb):
                    s.close()
            return W()
        if path not in fs.files:
            raise FileNotFoundError(path)
        return _Reader(fs.files[path])


class _Reader:
    """minimal text reader that hands the (possibly symbolic) content out without copying through C"""

    def __init__(self, data):
        self.data = data
        self.closed = False

    def read(self, n=-1):
        d, self.data = self.data, ""
        return d

    def readlines(self):
        return self.read().splitlines(True)

    def readline(self):
        d = self.data
        i = d.find("\n")
        if i < 0:
            self.data = ""
            return d
        self.data = d[i + 1:]
        return d[:i + 1]

    def __iter__(self):
        return iter(self.readlines())

    def close(self):
        self.closed = True

    def __enter__(self):
        return self

    def __exit__(self, *a):
        self.close()


class FakePath:
    def __init__(self, fs):
        self.fs = fs

    def __getattr__(self, n):
        return getattr(posixpath, n)

    def isdir(self, p):
        return self.fs.isdir(p)

    def isfile(self, p):
        return self.fs.isfile(p)

    def exists(self, p):
        return self.fs.exists(p)

    def realpath(self, p):
        return posixpath.normpath(posixpath.join("/", p))

    def abspath(self, p):
        return posixpath.normpath(posixpath.join("/", p))


class FakeOS:
    sep = "/"
    pathsep = ":"

    def __init__(self, fs):
        self.fs = fs
        self.path = FakePath(fs)

    def makedirs(self, p, exist_ok=False, **kw):
        return self.fs.makedirs(p, exist_ok)

    def mkdir(self, p, *a, **kw):
        return self.fs.makedirs(p, False)

    def listdir(self, p):
        return self.fs.listdir(p)

    def walk(self, p, topdown=True, **kw):
        return self.fs.walk(p, topdown)

    def replace(self, a, b):
        return self.fs.replace(a, b)

    def rename(self, a, b):
        return self.fs.replace(a, b)

    def remove(self, p):
        return self.fs.remove(p)

    def unlink(self, p):
        return self.fs.remove(p)


class FakeShutil:
    def __init__(self, fs):
        self.fs = fs

    def copy2(self, a, b):
        return self.fs.copy(a, b)

    def copy(self, a, b):
        return self.fs.copy(a, b)

    def copyfile(self, a, b):
        return self.fs.copy(a, b)

    def move(self, a, b):
        return self.fs.replace(a, b)

    def rmtree(self, p, ignore_errors=False):
        return self.fs.rmtree(p)


class Patch:
    """Swap `os`, `shutil`, `open` in the globals of the given modules for the fake FS; restore on exit."""

    def __init__(self, fs, modules):
        self.fs = fs
        self.modules = modules
        self.saved = []

    def __enter__(self):
        fos, fsh = FakeOS(self.fs), FakeShutil(self.fs)
        for m in self.modules:
            g = vars(m)
            self.saved.append((m, {k: g.get(k, _MISSING) for k in ("os", "shutil", "open")}))
            if "os" in g:
                g["os"] = fos
            if "shutil" in g:
                g["shutil"] = fsh
            g["open"] = self.fs.open
        return self.fs

    def __exit__(self, *a):
        for m, old in self.saved:
            g = vars(m)
            for k, v in old.items():
                if v is _MISSING:
                    g.pop(k, None)
                else:
                    g[k] = v
        self.saved = []
        return False


_MISSING = object()
