"""CrossHair model for ``float(<symbolic str>)`` that decides ACCEPTANCE exactly and abstracts the VALUE.

Companion of vp/chnum.py (whose ``install_float`` realises every accepted text so that the number is CPython's
own: exact, but one path per numeric literal).  For kernels whose assertion does not depend on *which* number a
literal denotes (C11: "the value in default units is defined", not "equals ..."), this variant keeps one path
per literal *shape*:

* every code point < 128: the text is run through ``chnum.float_accepts`` (recogniser of CPython's documented
  ``float()`` grammar, compared with CPython on 5.4 million strings by ``python -m vp.chnum``).  Rejected text
  raises ``ValueError`` without realisation; accepted text returns a FRESH UNCONSTRAINED symbolic float - a sound
  over-approximation (any float, including the right one).  A harness using this model must not assert anything
  about the numeric value; a counterexample is replayed concretely by the runner, where CPython's real
  ``float`` runs.
* concrete arguments go to CPython's ``float`` directly (the stock patch ends in ``float(realize(val))``, which
  under a replaced registration would re-enter this function without end).
* any code point >= 128: CrossHair's stock model.

This changes CrossHair's model of a built-in, never hed-python.
"""
from crosshair.core import _PATCH_REGISTRATIONS, proxy_for_type, realize
import crosshair.core_and_libs  # noqa: F401  (registers the stock patches)
from crosshair.tracers import NoTracing
from crosshair.statespace import context_statespace
from crosshair.libimpl.builtinslib import AnySymbolicStr

from crosshair.util import CrossHairValue

from vp import chnum

_real_float = float

_stock_float = None
_exact = [False]


def exact(flag):
    """exact(True): accepted ASCII text is realised and converted by CPython (value exact, one path per literal;
    for kernels whose number text is fixed or tiny).  exact(False) (default): value abstracted, see above.
    Call it first thing in the harness function."""
    _exact[0] = bool(flag)


def _float(*a, **kw):
    if len(a) != 1 or kw:
        return _stock_float(*a, **kw)
    val = a[0]
    with NoTracing():
        symbolic = isinstance(val, AnySymbolicStr)
        other = (not symbolic) and isinstance(val, CrossHairValue)
    if other:
        return _stock_float(val)        # symbolic int/float: stock conversions (never re-enter float())
    if not symbolic:
        with NoTracing():
            return _real_float(val)     # concrete argument: CPython's own float (and its own exceptions)
    cp = chnum._codepoints(val)
    if cp is None:
        return _stock_float(val)
    if chnum.float_accepts(cp):
        if _exact[0]:
            text = realize(val)             # the solver enumerates the accepted texts of the cell
            with NoTracing():
                return _real_float(text)
        with NoTracing():
            name = "absfloat" + str(context_statespace().uniq())    # deterministic per path
        return proxy_for_type(float, name)
    raise ValueError("could not convert string to float")


def install():
    global _stock_float
    if _stock_float is None:
        _stock_float = _PATCH_REGISTRATIONS[float]
        _PATCH_REGISTRATIONS[float] = _float
