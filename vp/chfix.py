"""Repair of a CrossHair 0.0.110 defect in the lazy code-point tuple behind symbolic strings.

`SymbolicBoundedIntTuple._create_up_to(size)` computes `num_to_add = size - len(self._created_vars)` and then
slices the queue of pre-made variables with it:

        self._new_var_queue = new_var_queue[num_to_add:]
        self._created_vars.extend(new_var_queue[:num_to_add])

When `size` is SMALLER than the number of variables already created, `num_to_add` is negative and the two
slices mean "all but the last |n|" / "the last |n|": variables are moved from the queue into `_created_vars`
although nothing was asked for, so the string now carries more code points than its length.  It happens when
  1. a symbolic string s was iterated once (all its code points created),
  2. s was compared with `==` to a LONGER string (`_get_smt_component_prefix(len(other))` queues variables up
     to the other string's length), and
  3. s is iterated again (`__iter__` calls `_create_up_to(1)`, `_create_up_to(2)`, ...).
Observed in harness C10 (names of up to 4 characters): `len(k) == 2` but `[ord(c) for c in k]` had 3 elements,
giving counterexamples such as onset_step('', True, '@[', True, '    ', 0) that do not reproduce concretely.

`install()` makes `_create_up_to` do nothing when nothing has to be added, which is what the method means.
This changes CrossHair only; nothing in hed-python is touched.
"""
from crosshair.libimpl.builtinslib import SymbolicBoundedIntTuple

_orig = SymbolicBoundedIntTuple._create_up_to
_installed = False


def _create_up_to(self, size):
    if size <= len(self._created_vars):
        return
    return _orig(self, size)


def install():
    global _installed
    if not _installed:
        SymbolicBoundedIntTuple._create_up_to = _create_up_to
        _installed = True
