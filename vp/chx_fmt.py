"""CrossHair model accelerator: f-string / format() of hed-python model objects without realisation.

CrossHair 0.0.110 intercepts `format(obj, spec)` (and FORMAT_VALUE in f-strings) by DEEP-REALISING `obj` first.
hed-python builds its issue messages with f-strings over HedTag / HedGroup objects
(e.g. error_messages.val_error_bad_def_expand: f"... Tag: '{tag}'.  Actual Def: {actual_def} ...").  Deep
realisation copies the whole tag tree and pins every symbolic character of the annotation to one concrete
value, so a path that reports such an issue turns into an enumeration of texts (measured: the Def-expand
validation harness is never exhausted, ~1 s per message).

`install()` changes the interception for one case only: empty format spec, and an object of a class defined in
the `hed` package that does not override `__format__`.  For these `format(obj, "")` IS `str(obj)` by the
language definition (object.__format__), so the patched function returns `obj.__str__()` executed under
tracing - the result may be a symbolic string.  Every other case goes to the previously registered
interception.  This changes CrossHair's model of a built-in, nothing in hed-python.
"""
from crosshair.core import _PATCH_REGISTRATIONS, realize
import crosshair.core_and_libs  # noqa: F401  (registers the stock patches)
from crosshair.tracers import NoTracing
from crosshair.libimpl.builtinslib import AnySymbolicStr

_prev = None


def _format(obj, format_spec=""):
    with NoTracing():
        if isinstance(format_spec, AnySymbolicStr):
            format_spec = realize(format_spec)
        t = type(obj)
        plain = (format_spec == "" and t.__format__ is object.__format__
                 and (t.__module__ or "").split(".")[0] == "hed")
    if plain:
        return obj.__str__()
    return _prev(obj, format_spec)


def install():
    global _prev
    if _prev is None:
        _prev = _PATCH_REGISTRATIONS[format]
        _PATCH_REGISTRATIONS[format] = _format
