"""Measurement hooks for one CrossHair worker process.

Installed by vp.worker before CrossHair starts.  Nothing here changes what
CrossHair explores; it only counts:

  paths       one per StateSpace created by analyze_calltree (= one execution path attempt)
  confirmed   paths whose postcondition evaluated to True   (attempt_call -> CONFIRMED)
  refuted     paths that produced a counterexample
  unknown     paths that aborted (path timeout, solver unknown, unsupported op)
  pre_failed  paths rejected by a precondition (outside the bound / other cell)
  z3_checks   calls of z3.Solver.check
  z3_s        seconds spent inside them
"""
import atexit
import json
import os
import time

STATS = {"paths": 0, "confirmed": 0, "refuted": 0, "unknown": 0, "pre_failed": 0,
         "z3_checks": 0, "z3_s": 0.0, "z3_unknown": 0}


def install():
    import z3
    from crosshair import core, statespace

    orig_check = z3.Solver.check

    def check(self, *a):
        t0 = time.perf_counter()
        try:
            r = orig_check(self, *a)
        finally:
            STATS["z3_s"] += time.perf_counter() - t0
            STATS["z3_checks"] += 1
        if str(r) == "unknown":
            STATS["z3_unknown"] += 1
        return r

    z3.Solver.check = check

    orig_attempt = core.attempt_call

    def attempt_call(*a, **kw):
        STATS["paths"] += 1
        try:
            res = orig_attempt(*a, **kw)
        except core.UnexploredPath:
            STATS["unknown"] += 1
            raise
        except core.IgnoreAttempt:
            STATS["pre_failed"] += 1
            raise
        st = res.verification_status
        if st is None:
            STATS["pre_failed"] += 1
        elif st == statespace.VerificationStatus.CONFIRMED:
            STATS["confirmed"] += 1
        elif st == statespace.VerificationStatus.REFUTED:
            STATS["refuted"] += 1
        else:
            STATS["unknown"] += 1
        return res

    core.attempt_call = attempt_call

    out = os.environ.get("VP_STATS")
    if out:
        def flush():
            STATS["z3_s"] = round(STATS["z3_s"], 3)
            with open(out, "w") as f:
                json.dump(STATS, f)
        atexit.register(flush)
