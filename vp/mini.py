"""Tiny-name schemas built through hed-python's own loader -> MediaWiki writer -> loader.

MINI    : the tag section of the real HED 8.3.0 schema (as shipped in /repo) replaced by the 25-node tree in
          models/mini_tags.mediawiki; unit classes, unit modifiers, value classes, attributes and properties are
          the real 8.3.0 ones.
MINI_P  : the same schema loaded a second time and given the namespace prefix "p:".
GROUP   : HedSchemaGroup([MINI, MINI_P])

Everything here is concrete and runs at import time (outside symbolic execution).
"""
import os
import re

from hed import load_schema_version
from hed.schema import from_string
from hed.schema.hed_schema_group import HedSchemaGroup

_HERE = os.path.dirname(os.path.dirname(os.path.abspath(__file__)))
TAGS_PATH = os.path.join(_HERE, "models", "mini_tags.mediawiki")


def tags_text():
    with open(TAGS_PATH) as f:
        return f.read()


def wiki_text():
    real = load_schema_version("8.3.0")
    lines = real.get_as_mediawiki_string().split("\n")
    s = lines.index("!# start schema")
    e = lines.index("!# end schema")
    out = lines[:s + 1] + [""] + tags_text().split("\n") + [""] + lines[e:]
    text = "\n".join(out)
    text = re.sub(r",? ?hedId=HED_\d+", "", text)
    text = text.replace("{, ", "{").replace("<nowiki>{}</nowiki>", "")
    return text


def build(prefix=""):
    return from_string(wiki_text(), ".mediawiki", schema_namespace=prefix)


MINI = build()
MINI_P = build("p:")
GROUP = HedSchemaGroup([MINI, MINI_P])
MINI_A = build("a:")          # a library prefix whose letter also begins node names (A, a/b, ...)
GROUP_A = HedSchemaGroup([MINI, MINI_A])


def fresh(obj=None):
    """A private deep copy of MINI (or of the given schema/group) for one harness call: lookups on it cannot
    leave state behind for other execution paths (a schema object that memoises would otherwise make CrossHair
    paths depend on each other and counterexamples irreproducible)."""
    import copy
    try:
        from crosshair.tracers import NoTracing
    except ImportError:
        return copy.deepcopy(MINI if obj is None else obj)
    with NoTracing():
        return copy.deepcopy(MINI if obj is None else obj)


def tree():
    """The mini tag tree read from the MediaWiki text (NOT from hed-python objects):
    list of dict(name, long, parent_long, attrs=[...], is_value=bool)."""
    nodes = []
    stack = []   # long names by level
    for line in tags_text().split("\n"):
        line = line.rstrip()
        if not line:
            continue
        m = re.match(r"^(\*+|''')\s*(.*)$", line)
        stars, rest = m.group(1), m.group(2)
        level = 1 if stars == "'''" else len(stars) + 1
        if stars == "'''":
            name, rest = rest.split("'''", 1)
        else:
            name = rest.split("<nowiki>")[0].strip()
            if not name:
                name = "#"
        am = re.search(r"\{([^}]*)\}", rest)
        attrs = [a.strip() for a in am.group(1).split(",")] if am else []
        stack = stack[:level - 1]
        parent = stack[-1] if stack else ""
        long = (parent + "/" + name) if parent else name
        stack.append(long)
        nodes.append({"name": name, "long": long, "parent": parent, "attrs": attrs, "is_value": name == "#"})
    return nodes


if __name__ == "__main__":
    from hed import HedString
    print(len(MINI.tags.long_form_tags), sorted(MINI.tags.long_form_tags))
    for t in ["A", "b/c/3 s", "A/B/x", "C/5 ms", "q", "f/x", "(G, H/a)", "D", "Def/x", "p:A"]:
        hs = HedString(t, GROUP)
        print(t, [(i['code'], i['severity']) for i in hs.validate()], hs.get_as_long())
    for n in tree():
        print(n)
