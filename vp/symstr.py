"""Representation helper for CrossHair symbolic strings (changes no value).

A `str` argument of a harness is backed by a z3 sequence of symbolic length; every index into a text
built from it (`prefix + s + suffix`) then needs a solver query to learn which part the index falls in,
even when a `pre:` line has pinned the length.  `fixed(s)` returns the SAME string (same z3 code-point
terms, same length) backed by a Python list of code points, so that positions are concrete and only the
characters stay symbolic.  Outside CrossHair (concrete replay) it returns its argument.
"""


try:
    import z3
    from crosshair.tracers import is_tracing, NoTracing
    from crosshair.libimpl.builtinslib import LazyIntSymbolicStr, SymbolicInt, SymbolicBool
except Exception:  # noqa  (crosshair not installed: everything below falls back to plain Python)
    is_tracing = None


def fixed(s):
    if is_tracing is None or not is_tracing():
        return s
    n = len(s)
    cps = [ord(s[i]) for i in range(n)]      # forks on the length (bounded by the harness precondition)
    with NoTracing():
        if not isinstance(s, LazyIntSymbolicStr):
            return s
        return LazyIntSymbolicStr(cps)


# ---- character-class preconditions as ONE solver term ----------------------------------------------------
# Written in Python (`for c in s: if not (c in A or ord(c) > 127 ...)`) a class test forks the search once per
# character and per alternative, so the number of paths grows with the number of class patterns although the
# code under test never looks at the class.  The helpers below state the same predicate as a single z3 formula
# over the code points (one fork: holds / does not hold); outside CrossHair they evaluate it in plain Python.
# `selfcheck_*` in harness/c05.py proves both readings equal for short strings.

NONASCII_SPACE = [cp for cp in range(128, 0x110000) if chr(cp).isspace()]


def _py_in_class(c, ascii_chars, nonascii):
    return c in ascii_chars or (nonascii and ord(c) > 127 and not c.isspace())


def py_over_class(s, ascii_chars, nonascii=True, sep=None, trimmed=None):
    """every character is in `ascii_chars`, or (if nonascii) is a code point > 127 that is not white space,
    or equals `sep`; `sep` neither leads, trails nor doubles; `trimmed`: that character neither leads nor trails"""
    prev = sep
    for c in s:
        if sep is not None and c == sep:
            if prev == sep:
                return False
        elif not _py_in_class(c, ascii_chars, nonascii):
            return False
        prev = c
    if sep is not None and len(s) > 0 and prev == sep:
        return False
    if trimmed is not None and len(s) > 0 and (s[0] == trimmed or s[len(s) - 1] == trimmed):
        return False
    return True


def over_class(s, ascii_chars, nonascii=True, sep=None, trimmed=None):
    if is_tracing is None or not is_tracing():
        return py_over_class(s, ascii_chars, nonascii, sep, trimmed)
    n = len(s)
    cps = [ord(s[i]) for i in range(n)]          # forks on the length only
    n = len(cps)
    with NoTracing():
        if not any(isinstance(cp, SymbolicInt) for cp in cps):
            return py_over_class("".join(chr(cp) for cp in cps), ascii_chars, nonascii, sep, trimmed)
        terms = [(cp.var if isinstance(cp, SymbolicInt) else z3.IntVal(cp)) for cp in cps]
        allowed = sorted(ord(ch) for ch in ascii_chars)
        conj = []
        for i, t in enumerate(terms):
            alts = [t == a for a in allowed]
            if nonascii:
                alts.append(z3.And(t > 127, *[t != w for w in NONASCII_SPACE]))
            if sep is not None:
                alts.append(t == ord(sep))
                if i + 1 < n:
                    conj.append(z3.Not(z3.And(t == ord(sep), terms[i + 1] == ord(sep))))
            conj.append(z3.Or(*alts))
        if n > 0:
            for ch in (sep, trimmed):
                if ch is not None:
                    conj.append(terms[0] != ord(ch))
                    conj.append(terms[n - 1] != ord(ch))
        return SymbolicBool(z3.And(*conj)) if conj else True


def py_at_most(s, ch, k):
    n = 0
    for c in s:
        if c == ch:
            n += 1
    return n <= k


def at_most(s, ch, k):
    """the character `ch` occurs at most k times in s (one solver term, like over_class)"""
    if is_tracing is None or not is_tracing():
        return py_at_most(s, ch, k)
    n = len(s)
    cps = [ord(s[i]) for i in range(n)]
    with NoTracing():
        if not any(isinstance(cp, SymbolicInt) for cp in cps):
            return py_at_most("".join(chr(cp) for cp in cps), ch, k)
        terms = [(cp.var if isinstance(cp, SymbolicInt) else z3.IntVal(cp)) for cp in cps]
        if not terms:
            return True
        return SymbolicBool(z3.Sum([z3.If(t == ord(ch), 1, 0) for t in terms]) <= k)
