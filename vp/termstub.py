"""Term-stub schema for the query-algebra harnesses (C15).  Part of the claim of every check that uses it.

Every ONE-CHARACTER tag text is a schema node.  Its entry carries what the real search code reads from a real
HedTagEntry -- `short_tag_name`, `long_tag_name`, `tag_terms` (the case-folded names on the node's path, root
first, exactly what HedTagEntry.finalize_entry derives from the long name) -- and nothing else, so real
HedString / HedTag / HedGroup trees are built from symbolic tag letters without a table lookup and
`find_tags_with_term`, `find_exact_tags`, `find_wildcard_tags` run for real on them.

`parents` (concrete, case-folded child letter -> case-folded parent letter) gives the stub a hierarchy:
TermStub({"b": "a"}) makes node b a child of node a, so tag `b` has tag_terms ("a", "b") and long form a/b.
A three-character text `x/y` is node x with the extension (or value) y: entry of x, remainder "/y".
Any other tag text (longer, or empty) is unknown to the stub (no entry), as in NoSchema.
"""


class TermEntry:
    """The attributes of a HedTagEntry that tag identification and searching read."""

    def __init__(self, short_name, path):
        self.short_tag_name = short_name
        self.long_tag_name = "/".join(path)
        self.tag_terms = tuple(p.casefold() for p in path)
        self.attributes = {}
        self.unit_classes = {}
        self.value_classes = {}

    def has_attribute(self, attribute, return_value=False):
        return None if return_value else False

    def base_tag_has_attribute(self, tag_attribute):
        return False

    def __bool__(self):
        return True


class TermStub:
    schema_83_props = True
    library = ""

    def __init__(self, parents=None):
        self.parents = dict(parents or {})

    def _path(self, name):
        path = [name]
        cur = self.parents.get(name.casefold())
        hops = 0
        while cur is not None and hops < 8:
            path.insert(0, cur)
            cur = self.parents.get(cur)
            hops += 1
        return path

    def find_tag_entry(self, tag, schema_namespace=""):
        text = tag.org_tag
        if len(text) == 3 and text[1] == "/":
            # node + one-character extension/value ("a/x"): entry of the node, remainder "/x" (what
            # HedSchema.find_tag_entry returns for an extension) -- only the C15 harness term_modes_ext builds these
            return TermEntry(text[0], self._path(text[0])), text[1:], []
        if len(text) != 1:
            return None, None, []
        return TermEntry(text, self._path(text)), None, []

    def get_tag_entry(self, name, key_class=None, schema_namespace=""):
        if len(name) != 1:
            return None
        return TermEntry(name, self._path(name))


FLAT = TermStub()
TREE = TermStub({"b": "a"})      # a > b ; c (and every other letter) is a root
