"""CrossHair representation accelerator: `flat(s)` returns a string EQUAL to s whose symbolic representation is
one flat Python list of code points (concrete ints and SymbolicInt terms).

Why: a harness that builds an annotation as  "G, (Def/" + nm + "/" + v + ", B)"  gets a LazyIntSymbolicStr backed
by a nested SequenceConcatenation whose pieces have symbolic lengths; every later `s[i]` / `s[a:b]` (hed-python's
tokenizer and the reference parser index the text thousands of times) walks that structure and asks z3 where the
index falls (measured: ~60 % of a path's time, ~200 solver calls per path).  After `flat()` the length is a
Python int and indexing is a list access.  The length is realised here - harnesses call it after their `pre:`
lines have pinned the lengths of the symbolic pieces, so this adds no path.

Identity on real `str` outside CrossHair (concrete replay).  Changes CrossHair's representation only.
"""
import sys

from crosshair.tracers import NoTracing, is_tracing
from crosshair.libimpl.builtinslib import LazyIntSymbolicStr


def flat(s):
    if not is_tracing():
        return s
    n = len(s)
    cps = [ord(s[i]) for i in range(n)]
    with NoTracing():
        return LazyIntSymbolicStr(cps)


def plain(s):
    """s itself, or - when s is a CrossHair string whose code points are ALL concrete ints - the equal real `str`
    (native speed for find/lower/==; no solver involved either way)."""
    if not is_tracing():
        return s
    with NoTracing():
        if type(s) is LazyIntSymbolicStr:
            cps = s._codepoints
            if type(cps) is list:
                for c in cps:
                    if type(c) is not int:
                        return s
                return "".join(map(chr, cps))
    return s


_orig_getitem = LazyIntSymbolicStr.__getitem__


def _getitem(self, i):
    r = _orig_getitem(self, i)
    if sys._getframe(1).f_globals.get("__name__", "").startswith("crosshair"):
        return r            # CrossHair's own string algorithms slice and then read the proxy's code points
    return plain(r)


def install_slices():
    """Make indexing / slicing of a CrossHair string return a real `str` whenever every selected code point is a
    concrete int (e.g. the tag `B` cut out of  "G, (Def/" + nm + ", B)").  Exact: such a symbolic string and the
    real string are equal in every respect Python code can observe except `type(x) is str`/identity, which
    CrossHair proxies do not preserve anyway.  hed-python then handles the constant tags of a template natively."""
    LazyIntSymbolicStr.__getitem__ = _getitem
