"""One CrossHair run on one harness function in one cell.

usage: python -m vp.worker <module> <function> <per_condition_timeout> <per_path_timeout>

Runs the stock `crosshair check --report_all` command line in-process (so the
verdict lines are CrossHair's own) after installing the counters of vp.instrument.
"""
import os
import sys


def main():
    mod, fn, cond_t, path_t = sys.argv[1:5]
    import hed
    want = os.path.realpath(os.environ.get("VP_REPO", "/repo"))
    got = os.path.realpath(os.path.dirname(os.path.dirname(hed.__file__)))
    if got != want:
        print(f"HARNESS-ERROR: hed imported from {got}, expected {want}")
        sys.exit(3)
    from vp import instrument
    instrument.install()
    from crosshair.main import unwalled_main
    argv = ["check", "--report_all",
            "--per_condition_timeout", cond_t, "--per_path_timeout", path_t,
            f"{mod}.{fn}"]
    if os.environ.get("VP_VERBOSE"):
        argv.insert(1, "-v")
    rc = unwalled_main(argv)
    sys.stdout.flush()
    sys.exit(rc)


if __name__ == "__main__":
    main()
