"""Environment stubs shared by harnesses (each is part of the claim of the checks that use it)."""


class NoSchema:
    """A schema that knows no tag: real HedString/HedGroup/HedTag trees can be built from symbolic text
    without any table lookup; tags then compare by (case-folded) text."""
    schema_83_props = True
    library = ""

    def find_tag_entry(self, tag, schema_namespace=""):
        return None, None, []

    def get_tag_entry(self, name, key_class=None, schema_namespace=""):
        return None


NOSCHEMA = NoSchema()
