"""Stubs for C16: directory discovery and file reading are outside the claim and are replaced by given data.

* `FoundGroup` is `BidsFileGroup` with its three *discovery* methods (`_make_sidecar_dict`,
  `_make_sidecar_dir_dict`, `_make_datafile_dict` -- all of them thin wrappers around `os.walk` in
  `io_util.get_file_list/get_dir_dictionary`) returning what the harness "found".  Everything else --
  `BidsFileGroup.__init__`, `get_sidecars_from_path`, `_get_sidecar_for_obj`, `BidsSidecarFile.is_sidecar_for`,
  `BidsSidecarFile.set_contents`, `Sidecar.__init__/load_sidecar_files/load_sidecar_file/_load_json_file` --
  is hed-python's own code.
* `json_files(docs)` makes `open(path, "r")` *inside module hed.models.sidecar only* hand back a file whose
  JSON content is the already decoded `docs[path]`, and replaces that module's `json` by the C08 stub decoder
  (`vp/sidecar_stub.py`) for the duration of the `with` block.
  Assumption stated in evidence: reading and decoding the file at `path` yields `docs[path]`.
* `bare(cls, path, suffix, entities)` builds a BidsFile-family object without touching the file system
  (`BidsFile.__init__` calls `os.path.realpath`, which `lstat`s every prefix of the path).
"""
import hed.models.sidecar as _sidecar_mod
from hed.tools.bids.bids_file_group import BidsFileGroup
from vp.sidecar_stub import DecodedFile, _JsonStub


class FoundGroup(BidsFileGroup):
    def __init__(self, root_path, sidecar_dict, sidecar_dir_dict, datafile_dict, suffix="events"):
        self._found = (sidecar_dict, sidecar_dir_dict, datafile_dict)
        super().__init__(root_path, suffix=suffix)

    def _make_sidecar_dict(self):
        return self._found[0]

    def _make_sidecar_dir_dict(self):
        return self._found[1]

    def _make_datafile_dict(self):
        return self._found[2]


class _Opened:
    def __init__(self, value):
        self.fp = DecodedFile(value)

    def __enter__(self):
        return self.fp

    def __exit__(self, *a):
        return False


class json_files:
    def __init__(self, docs):
        self.docs = docs      # concrete path -> decoded JSON value

    def _open(self, path, mode="r", *a, **k):
        if path not in self.docs:
            raise FileNotFoundError(2, "No such file or directory", path)
        return _Opened(self.docs[path])

    def __enter__(self):
        self.saved = (_sidecar_mod.__dict__.get("open", None), _sidecar_mod.json)
        _sidecar_mod.open = self._open
        _sidecar_mod.json = _JsonStub
        return self

    def __exit__(self, *a):
        if self.saved[0] is None:
            del _sidecar_mod.open
        else:
            _sidecar_mod.open = self.saved[0]
        _sidecar_mod.json = self.saved[1]
        return False


def bare(cls, path, suffix, ext, entities):
    o = cls.__new__(cls)
    o.file_path = path
    o.suffix = suffix
    o.ext = ext
    o.entity_dict = entities
    o.sidecar = None
    o._contents = None
    o.has_hed = False
    return o
