"""CrossHair model accelerator: `<symbolic str> in <concrete set of str>` as ONE solver question.

CrossHair 0.0.110 rewrites `x in s` for a concrete `set` s and a symbolic x into a linear scan
(`simplestructs.LinearSet.__contains__`: `for item in items: if x == item: return True`), which forks once per
element: the 67-character "name" class of `hed_schema_constants.character_types` costs up to 68 paths per
character of the checked text.  For a symbolic string of length exactly 1 this model asks the same question as a
single disjunction over the code points of the one-character elements (two paths: member / not a member);
elements of any other length cannot equal a one-character string.  For other lengths it scans only the elements
of length != 1 the stock way.  Exact: str equality is equality of length and code points.
"""
import z3
from crosshair.simplestructs import LinearSet
from crosshair.tracers import NoTracing
from crosshair.libimpl.builtinslib import AnySymbolicStr, SymbolicInt, SymbolicBool

_stock = None


def _contains(self, x):
    with NoTracing():
        items = self._items
        fast = (isinstance(x, AnySymbolicStr) and type(items) in (set, frozenset, list, tuple)
                and all(type(i) is str for i in items))
        if fast:
            singles = sorted(ord(i) for i in items if len(i) == 1)
            others = sorted(i for i in items if len(i) != 1)
    if not fast:
        return _stock(self, x)
    if len(x) == 1:
        cp = ord(x)
        with NoTracing():
            if isinstance(cp, SymbolicInt):
                if not singles:
                    return False
                return SymbolicBool(z3.Or([cp.var == c for c in singles]))
            return cp in singles
    for item in others:
        if x == item:
            return True
    return False


def install():
    global _stock
    if _stock is None:
        _stock = LinearSet.__contains__
        LinearSet.__contains__ = _contains
