"""CrossHair model accelerators for text <-> number conversions (exact on ASCII; stock model otherwise).

They change CrossHair's *models of CPython built-ins*, never hed-python.  Each is installed separately.

install_float()  `float(<symbolic str>)`
    Stock CrossHair 0.0.110 turns `float(s)` for s like `[+-]?\\d+(\\.\\d*)?` into a z3 real/IEEE term built from
    `int(<digits of s>)`; z3 answers `unknown` on it even for a one-character string (measured: a harness through
    `float()` is never confirmed), and any other text is realised *before* it is known whether CPython accepts it,
    so every rejected text becomes its own path.  This model decides acceptance symbolically instead:
    * all code points < 128: the text is run through a recogniser of CPython's documented `float()` grammar
      (docs.python.org/3/library/functions.html#float: blanks stripped, optional sign, `inf`/`infinity`/`nan` in
      any letter case, or `digitpart [. digitpart] [e [sign] digitpart]` with single underscores between digits).
      Rejected text raises `ValueError` with no realisation (one path per shape).  Accepted text is realised and
      handed to CPython's own `float`, so the number and its later formatting are CPython's, not a model's; the
      solver enumerates the accepted texts of the cell (keep digit alphabets small in `pre:`).
    * any code point >= 128 (Unicode digits/blanks are legal for `float`): CrossHair's stock model.
    The `ValueError` text is a constant (CPython's carries the repr of the argument).

install_int()  `int(<symbolic str>)` (base 10, one argument)
    Stock: symbolic for ASCII digit strings, otherwise `int(realize(s))` (every rejected text its own path).
    Here, for code points < 128: recogniser of CPython's grammar (blanks stripped, optional sign, digits with single
    underscores between them); rejected -> `ValueError`, no realisation; accepted -> the decimal value of its digit
    characters as a symbolic int (sum of (c-48)*10^k, negated after '-').  Otherwise stock.

install_intfmt()  `format(<symbolic int>, "")` / `f"{i}"`
    Stock (`format` builtin patch) deep-realises the int.  Here: CrossHair's own symbolic `SymbolicInt.__repr__`
    (forks on the number of digits only); `format(i, "") == repr(i)` for every int.  Non-empty specs: stock.

`python -m vp.chnum` compares both recognisers (and the int value) with CPython on every string of length <= 5
over one representative of each character class the grammars distinguish (5.4 million strings; 0 disagreements
on CPython 3.12).
"""
from crosshair.core import _PATCH_REGISTRATIONS, realize, deep_realize
import crosshair.core_and_libs  # noqa: F401  (registers the stock patches)
from crosshair.tracers import NoTracing
from crosshair.libimpl.builtinslib import AnySymbolicStr, SymbolicInt, SymbolicFloat


# blanks that float()/int() strip below 128: Py_ISSPACE = space, \t \n \v \f \r (NOT \x1c-\x1f, unlike str.isspace)
def _is_ws(c):
    return c == 32 or (9 <= c <= 13)


def _is_digit(c):
    return 48 <= c <= 57


def _digitpart(cp, k, j):
    """index after the longest `digit (["_"] digit)*` starting at k (k itself if there is none)"""
    if k < j and _is_digit(cp[k]):
        k += 1
        while True:
            if k < j and _is_digit(cp[k]):
                k += 1
            elif k + 1 < j and cp[k] == 95 and _is_digit(cp[k + 1]):
                k += 2
            else:
                break
    return k


def _word(cp, i, j, word):
    """cp[i:j] spells `word` (lower-case ASCII letters) in any letter case"""
    if j - i != len(word):
        return False
    for d in range(len(word)):
        c = cp[i + d]
        w = ord(word[d])
        if not (c == w or c == w - 32):
            return False
    return True


def _strip(cp):
    i, j = 0, len(cp)
    while i < j and _is_ws(cp[i]):
        i += 1
    while j > i and _is_ws(cp[j - 1]):
        j -= 1
    return i, j


def float_accepts(cp):
    """cp: list of code points, all < 128.  True iff CPython's float() accepts the text."""
    i, j = _strip(cp)
    if i < j and (cp[i] == 43 or cp[i] == 45):
        i += 1
    if i >= j:
        return False
    if not (_is_digit(cp[i]) or cp[i] == 46):
        return _word(cp, i, j, "inf") or _word(cp, i, j, "nan") or _word(cp, i, j, "infinity")
    k = _digitpart(cp, i, j)
    had_int = k > i
    if k < j and cp[k] == 46:
        k += 1
        k2 = _digitpart(cp, k, j)
        if not had_int and k2 == k:
            return False
        k = k2
    elif not had_int:
        return False
    if k < j and (cp[k] == 101 or cp[k] == 69):
        k += 1
        if k < j and (cp[k] == 43 or cp[k] == 45):
            k += 1
        k3 = _digitpart(cp, k, j)
        if k3 == k:
            return False
        k = k3
    return k == j


def int_parse(cp):
    """cp: code points, all < 128.  The int CPython's int(text) returns, or None if it raises ValueError."""
    i, j = _strip(cp)
    neg = False
    if i < j and (cp[i] == 43 or cp[i] == 45):
        neg = cp[i] == 45
        i += 1
    if i >= j or _digitpart(cp, i, j) != j:
        return None
    val = 0
    for k in range(i, j):
        c = cp[k]
        if c != 95:
            val = val * 10 + (c - 48)
    return -val if neg else val


def _codepoints(val):
    """list of code points if all < 128, else None (tracing on: forks once per character)"""
    n = len(val)
    cp = [ord(val[i]) for i in range(n)]
    for c in cp:
        if not (c < 128):
            return None
    return cp


# NOTE: CrossHair routes a call of the patched builtin made from *inside the registered patch's own code
# object* to the native builtin (tracers.PatchingModule.nextfn).  Delegating to the stock patch function from a
# wrapper would therefore recurse (stock's inner `float(...)` call would come back here); the non-string
# branches of the stock patches are small and are repeated below instead.
_installed = set()


def _float(val=0.0):
    with NoTracing():
        if isinstance(val, SymbolicFloat):
            return val
        symbolic_str = isinstance(val, AnySymbolicStr)
        symbolic_int = isinstance(val, SymbolicInt)
    if symbolic_int:
        return val.__float__()
    if symbolic_str:
        cp = _codepoints(val)
        if cp is not None and not float_accepts(cp):
            raise ValueError("could not convert string to float")
    return float(realize(val))


def _int(*a, **kw):
    if len(a) == 1 and not kw:
        val = a[0]
        with NoTracing():
            if isinstance(val, SymbolicInt):
                return val
            symbolic_str = isinstance(val, AnySymbolicStr)
        if symbolic_str:
            cp = _codepoints(val)
            if cp is not None:
                ret = int_parse(cp)
                if ret is None:
                    raise ValueError("invalid literal for int() with base 10")
                return ret
    with NoTracing():
        a = deep_realize(a)
        kw = deep_realize(kw)
    return int(*a, **kw)


def _format(obj, format_spec=""):
    with NoTracing():
        if isinstance(format_spec, AnySymbolicStr):
            format_spec = realize(format_spec)
        if format_spec in ("", "s") and isinstance(obj, AnySymbolicStr):
            return obj
        plain_int = format_spec == "" and isinstance(obj, SymbolicInt)
    if plain_int:
        return obj.__repr__()
    with NoTracing():
        obj = deep_realize(obj)
    return format(obj, format_spec)


def install_float():
    if "float" not in _installed:
        _installed.add("float")
        _PATCH_REGISTRATIONS[float] = _float


def install_int():
    if "int" not in _installed:
        _installed.add("int")
        _PATCH_REGISTRATIONS[int] = _int


def install_intfmt():
    if "format" not in _installed:
        _installed.add("format")
        _PATCH_REGISTRATIONS[format] = _format


def _selftest(maxlen=5):
    import itertools
    reps = "0 7 + - . e E _ x i I n N f a t y".split() + [" ", "\t", "\x1c", "\x00", "^"]
    extra = ["infinity", "-Infinity", " +INFINITY ", "infinit", "infinityy", "1_000.0_1e1_0", "nan(1)", "0x10",
             " -1_234_567 ", "0000123", "-0", "+00_7"]
    bad = []
    count = 0

    def one(s):
        cp = [ord(c) for c in s]
        try:
            float(s)
            real = True
        except ValueError:
            real = False
        if float_accepts(cp) != real:
            bad.append(("float", s))
        try:
            real = int(s)
        except ValueError:
            real = None
        if int_parse(cp) != real:
            bad.append(("int", s))

    for L in range(maxlen + 1):
        for tup in itertools.product(reps, repeat=L):
            one("".join(tup))
            count += 1
    for s in extra:
        one(s)
        count += 1
    return count, bad


if __name__ == "__main__":
    n, bad = _selftest()
    print(f"compared {n} strings with CPython float() and int(): {len(bad)} disagreements", bad[:20])
