"""Mini schema variant with a value-taking node that declares TWO value classes (numericClass, nameClass),
like Loudness/# in the bundled schemas: a value is acceptable if ONE of the classes accepts it.
Built through hed-python's own MediaWiki loader from vp.mini.wiki_text(); concrete, import time only."""
from hed.schema import from_string

from vp import mini

EXTRA_TAGS = ["'''L''' <nowiki>[Root l: loudness-like.]</nowiki>",
              "* <nowiki># {takesValue, valueClass=numericClass, valueClass=nameClass} [l value]</nowiki>"]


def wiki_text():
    out = []
    for line in mini.wiki_text().split("\n"):
        if line == "!# end schema":
            out.extend(EXTRA_TAGS)
            out.append("")
        out.append(line)
    return "\n".join(out)


MINI_V = from_string(wiki_text(), ".mediawiki")

if __name__ == "__main__":
    from hed import HedString
    print(MINI_V.tags["L/#"].value_classes.keys())
    for t in ["L/0.5", "L/+3", "L/3", "L/loud", "L/a.b", "L/a_b-c", "L/1e5", "L/$"]:
        print(t, [(i["code"], i["severity"]) for i in HedString(t, MINI_V).validate()])
