"""ASCII-exact CrossHair accelerators for str.upper() / str.swapcase() (companion of vp/chx.py, same construction).

For a symbolic string whose code points are all < 128 the result is the symbolic string of z3 terms
    upper:     If(97 <= c <= 122, c - 32, c)
    swapcase:  If(97 <= c <= 122, c - 32, If(65 <= c <= 90, c + 32, c))
which is exactly CPython's behaviour on ASCII.  Any other code point falls through to CrossHair's stock model.
This changes CrossHair's model of a built-in, not hed-python; harnesses that use it carry
`pre: R.ascii_printable(s)`.
"""
import z3
from crosshair.libimpl.builtinslib import LazyIntSymbolicStr, SymbolicInt
from crosshair.tracers import NoTracing

_orig_upper = LazyIntSymbolicStr.upper
_orig_swapcase = LazyIntSymbolicStr.swapcase


def _map(self, orig, sym, conc):
    n = len(self)
    cps = [ord(self[i]) for i in range(n)]
    for cp in cps:
        if not (cp < 128):     # one fork per char; non-ASCII -> stock model
            return orig(self)
    with NoTracing():
        out = []
        for cp in cps:
            if isinstance(cp, SymbolicInt):
                out.append(SymbolicInt(sym(cp.var)))
            else:
                out.append(conc(cp))
        return LazyIntSymbolicStr(out)


def _up_sym(v):
    return z3.If(z3.And(v >= 97, v <= 122), v - 32, v)


def _up_conc(c):
    return c - 32 if 97 <= c <= 122 else c


def _sw_sym(v):
    return z3.If(z3.And(v >= 97, v <= 122), v - 32, z3.If(z3.And(v >= 65, v <= 90), v + 32, v))


def _sw_conc(c):
    return c - 32 if 97 <= c <= 122 else (c + 32 if 65 <= c <= 90 else c)


def install():
    LazyIntSymbolicStr.upper = lambda self: _map(self, _orig_upper, _up_sym, _up_conc)
    LazyIntSymbolicStr.swapcase = lambda self: _map(self, _orig_swapcase, _sw_sym, _sw_conc)
