"""CrossHair model repair: `$` in a regular expression (without re.MULTILINE).

CPython: `$` "matches at the end of the string or just before the newline at the end of the string", i.e. it is
exactly `(?=\\n?\\Z)`.  CrossHair 0.0.110's symbolic matcher (libimpl/relib.py, op AT / AT_END) only accepts the
first alternative, so on a symbolic subject `re.match(r"^\\d+$", s)` never yields `s == "3\\n"` although CPython
matches it (measured: a harness comparing hed-python's numeric pattern with a reference grammar was *confirmed*
while "3\\n" is a concrete counterexample).

install() wraps the parser used by relib so that every non-MULTILINE `$` node is replaced by the equivalent
look-ahead `(?=\\n?\\Z)`, which the symbolic matcher handles.  MULTILINE patterns are left alone (relib models
them).  This changes CrossHair's model of `re`, never hed-python.
"""
import re

from crosshair.libimpl import relib

try:
    import re._parser as _re_parser
except ImportError:  # pragma: no cover  (Python < 3.11)
    import sre_parse as _re_parser

_orig_parse = None


def _rewrite(sub, flags):
    """in place: replace (AT, AT_END) in SubPattern `sub` and everything nested in it"""
    data = sub.data
    for i in range(len(data)):
        op, arg = data[i]
        if op is relib.AT and arg is relib.AT_END and not (flags & re.MULTILINE):
            look = _re_parser.SubPattern(sub.state)
            look.append((relib.MAX_REPEAT, (0, 1, _lit_nl(sub.state))))
            look.append((relib.AT, relib.AT_END_STRING))
            data[i] = (relib.ASSERT, (1, look))
        else:
            _walk(arg, flags)


def _lit_nl(state):
    p = _re_parser.SubPattern(state)
    p.append((relib.LITERAL, 10))
    return p


def _walk(arg, flags):
    if isinstance(arg, _re_parser.SubPattern):
        _rewrite(arg, flags)
    elif isinstance(arg, (tuple, list)):
        for a in arg:
            _walk(a, flags)


def _parse(pattern, flags=0, *a, **kw):
    parsed = _orig_parse(pattern, flags, *a, **kw)
    _rewrite(parsed, flags | parsed.state.flags)
    return parsed


def install():
    global _orig_parse
    if _orig_parse is None:
        _orig_parse = relib.parse
        relib.parse = _parse
