"""Runner: decides one property by CrossHair (symbolic execution + z3) over its harness cells.

  python -m vp.runner C02 --tier quick|thorough [--only harness] [--jobs 16]
  python -m vp.runner --replay replays/<file>.json

Exit codes: 0 property held on everything explored (inconclusive cells are reported, not hidden),
            1 a reproduced, un-listed violation (VIOLATION line printed),
            3 harness error (vacuous cell, counterexample that does not reproduce, missing target).
"""
import argparse
import ast
import hashlib
import importlib
import inspect
import json
import os
import re
import subprocess
import sys
import time
from concurrent.futures import ThreadPoolExecutor

VERIF = os.path.dirname(os.path.dirname(os.path.abspath(__file__)))
REPO = os.environ.get("VP_REPO", "/repo")
PY = sys.executable
GEN = os.path.join(VERIF, ".gen")
WORK = os.path.join(VERIF, ".work")
MAX_TWINS = 6

PROPS = {
    "C01": "c01", "C02": "c02", "C03": "c03", "C04": "c04", "C05": "c05", "C06": "c06", "C07": "c07",
    "C08": "c08", "C09": "c09", "C10": "c10", "C11": "c11", "C12": "c12", "C13": "c13", "C14": "c14",
    "C15": "c15", "C16": "c16", "C18": "c18", "C19": "c19", "C20": "c20",
}


def child_env(extra):
    e = dict(os.environ)
    e["PYTHONPATH"] = REPO + os.pathsep + VERIF + os.pathsep + GEN
    e["PYTHONHASHSEED"] = "0"
    e["VP_REPO"] = REPO
    e.pop("HED_PYTHON_VERIF", None)
    for k, v in extra.items():
        e[k] = str(v)
    return e


def resolve(dotted):
    parts = dotted.split(".")
    for i in range(len(parts), 0, -1):
        try:
            obj = importlib.import_module(".".join(parts[:i]))
        except ImportError:
            continue
        for p in parts[i:]:
            obj = getattr(obj, p)
        return obj
    raise ImportError(dotted)


def parse_call(msg):
    """Extract `f(args)` from a CrossHair message '... when calling f(args) (which returns ..)'."""
    i = msg.find("when calling ")
    if i < 0:
        return None
    rest = msg[i + len("when calling "):]
    for j in range(len(rest)):
        if rest[j] == ")":
            cand = rest[: j + 1]
            try:
                node = ast.parse(cand, mode="eval")
            except (SyntaxError, ValueError):
                continue
            if isinstance(node.body, ast.Call):
                return cand
    return None


LINE_RE = re.compile(r"^(.*?):(\d+): (error|info): (.*)$")


def run_worker(mod, fn, env, timeout, path_timeout, tag):
    os.makedirs(WORK, exist_ok=True)
    stats_path = os.path.join(WORK, f"{tag}.stats.json")
    if os.path.exists(stats_path):
        os.remove(stats_path)
    e = child_env(dict(env, VP_STATS=stats_path))
    t0 = time.time()
    wall_cap = timeout * 4 + 120
    try:
        p = subprocess.run([PY, "-m", "vp.worker", mod, fn, str(timeout), str(path_timeout)],
                           cwd=VERIF, env=e, capture_output=True, text=True, timeout=wall_cap)
        out, err, rc = p.stdout, p.stderr, p.returncode
    except subprocess.TimeoutExpired as te:
        out = (te.stdout or b"").decode("utf8", "replace") if isinstance(te.stdout, bytes) else (te.stdout or "")
        err, rc = "wall timeout", -9
    wall = time.time() - t0
    verdict, detail = "error", ""
    for line in out.splitlines():
        m = LINE_RE.match(line)
        if not m:
            continue
        kind, text = m.group(3), m.group(4)
        if kind == "error":
            verdict, detail = "counterexample", text
            break
        if text.startswith("Confirmed over all paths"):
            verdict = "confirmed"
        elif text.startswith("Not confirmed"):
            verdict = "not_confirmed"
        elif text.startswith("Unable to meet precondition"):
            verdict, detail = "pre_unsat", text
    if rc == -9:
        verdict, detail = "not_confirmed", "wall timeout"
    elif verdict == "error":
        detail = (out + err)[-2000:]
    stats = {}
    try:
        with open(stats_path) as f:
            stats = json.load(f)
        os.remove(stats_path)
    except (FileNotFoundError, ValueError):
        pass
    return {"verdict": verdict, "detail": detail, "wall_s": round(wall, 2), "stats": stats, "rc": rc}


def concrete_call(mod, call, env):
    """Evaluate `call` in a fresh interpreter without CrossHair. -> dict(result=..., exc=...)"""
    code = (
        "import json,sys,importlib\n"
        f"m=importlib.import_module({mod!r})\n"
        "try:\n"
        f"    r=eval({call!r}, vars(m))\n"
        "    print('VPRESULT '+json.dumps({'result':repr(r),'ok':bool(r)}))\n"
        "except BaseException as e:\n"
        "    print('VPRESULT '+json.dumps({'exc':type(e).__name__+': '+str(e)[:300],'ok':False}))\n"
    )
    p = subprocess.run([PY, "-c", code], cwd=VERIF, env=child_env(env), capture_output=True, text=True,
                       timeout=300)
    for line in p.stdout.splitlines():
        if line.startswith("VPRESULT "):
            return json.loads(line[9:])
    return {"exc": "replay process failed: " + (p.stderr or p.stdout)[-500:], "ok": None}


def gen_twins(modname, module, harnesses):
    """Reachability twins: same signature and pre-lines, `post: False` after the harness body ran."""
    os.makedirs(GEN, exist_ok=True)
    lines = [f"import {modname} as _m", "from typing import *",
             "globals().update({k: v for k, v in vars(_m).items() if not k.startswith('__')})", ""]
    for h in harnesses:
        fn = getattr(module, h.fn)
        sig = inspect.signature(fn)
        pres = [l.strip() for l in (fn.__doc__ or "").splitlines() if l.strip().startswith("pre:")]
        params = ", ".join(f"{n}: {_ann(p.annotation)}" for n, p in sig.parameters.items())
        args = ", ".join(sig.parameters)
        lines.append(f"def {h.fn}__reach({params}) -> bool:")
        lines.append('    """')
        for pl in pres:
            lines.append("    " + pl)
        lines.append("    post: False")
        lines.append('    """')
        lines.append(f"    _m.{h.fn}({args})")
        lines.append("    return True")
        lines.append("")
    short = modname.split(".")[-1]
    path = os.path.join(GEN, f"{short}_twins.py")
    with open(path, "w") as f:
        f.write("\n".join(lines))
    return f"{short}_twins", path


def _ann(a):
    if a is inspect.Parameter.empty:
        return "object"
    if isinstance(a, type):
        return a.__name__
    return str(a).replace("typing.", "")


def load_known():
    try:
        with open(os.path.join(VERIF, "known_findings.json")) as f:
            return json.load(f).get("findings", [])
    except FileNotFoundError:
        return []


def write_replay(pid, modname, call, env, observed, extra=None):
    os.makedirs(os.path.join(VERIF, "replays"), exist_ok=True)
    hsh = hashlib.sha1((modname + call).encode()).hexdigest()[:10]
    path = os.path.join("replays", f"{pid}-{hsh}.json")
    rec = {"property": pid, "module": modname, "call": call, "env": {k: str(v) for k, v in env.items()},
           "observed": observed, "repo_head": git_head()}
    if extra:
        rec.update(extra)
    with open(os.path.join(VERIF, path), "w") as f:
        json.dump(rec, f, indent=1)
    return path


def git_head():
    try:
        return subprocess.run(["git", "-C", REPO, "rev-parse", "--short", "HEAD"], capture_output=True,
                              text=True).stdout.strip()
    except OSError:
        return ""


def do_replay(path):
    with open(path) as f:
        rec = json.load(f)
    res = concrete_call(rec["module"], rec["call"], rec.get("env", {}))
    print(json.dumps({"call": rec["call"], "now": res, "recorded": rec.get("observed")}, indent=1))
    if res.get("ok") is False:
        print(f"VIOLATION property={rec['property']} replay={path}")
        return 1
    if res.get("ok") is None:
        return 3
    print("replay: the recorded call now satisfies the harness")
    return 0


def main():
    ap = argparse.ArgumentParser()
    ap.add_argument("prop", nargs="?")
    ap.add_argument("--tier", default=os.environ.get("VERIF_TIER", "quick"))
    ap.add_argument("--only", default=None)
    ap.add_argument("--jobs", type=int, default=int(os.environ.get("VP_JOBS", "16")))
    ap.add_argument("--replay", default=None)
    ap.add_argument("--no-twins", action="store_true")
    ap.add_argument("--no-evidence", action="store_true")
    a = ap.parse_args()
    if a.replay:
        sys.exit(do_replay(a.replay))
    pid = a.prop
    if pid not in PROPS:
        print(f"unknown or not-applicable property {pid}")
        sys.exit(3)
    tier = a.tier if a.tier in ("quick", "thorough") else "quick"
    seed = int(os.environ.get("VERIF_SEED", "0") or 0)
    t_start = time.time()
    sys.path[:0] = [REPO, VERIF]
    import hed
    got = os.path.realpath(os.path.dirname(os.path.dirname(hed.__file__)))
    if got != os.path.realpath(REPO):
        print(f"HARNESS-ERROR: hed imported from {got}")
        sys.exit(3)
    modname = "harness." + PROPS[pid]
    module = importlib.import_module(modname)
    harnesses = [h for h in module.HARNESSES if (a.only is None or h.fn in a.only.split(","))]
    harness_errors = []
    # targets must exist in /repo (a rename is an error, not a silent pass)
    for h in harnesses:
        for t in h.targets:
            try:
                obj = resolve(t)
                src = inspect.getsourcefile(inspect.unwrap(obj)) if callable(obj) or inspect.isclass(obj) else None
                if src and not os.path.realpath(src).startswith(os.path.realpath(REPO)):
                    harness_errors.append(f"target {t} not from {REPO}: {src}")
            except Exception as e:  # noqa
                harness_errors.append(f"target {t} missing: {e}")
    twin_mod, _ = gen_twins(modname, module, harnesses)

    jobs = []
    for h in harnesses:
        t = h.tiers[tier]
        ncell = len(t["cells"])
        # reachability twins: a sample of cells per harness (evenly spaced, <= MAX_TWINS).  Every cell is
        # additionally guarded by the measured count of paths that reached the postcondition (see below).
        step = max(1, -(-ncell // MAX_TWINS))
        for ci, cell in enumerate(t["cells"]):
            env = dict(t["env"], **cell)
            jobs.append((h, ci, env, t, "main"))
            if not a.no_twins and ci % step == 0:
                jobs.append((h, ci, env, t, "twin"))

    def run(job):
        h, ci, env, t, kind = job
        tag = f"{pid}_{h.fn}_{ci}_{kind}_{os.getpid()}"
        if kind == "main":
            return job, run_worker(modname, h.fn, env, t["timeout"], t["path_timeout"], tag)
        e2 = dict(env)
        r = run_worker(twin_mod, h.fn + "__reach", e2, min(t["timeout"], 40), t["path_timeout"], tag)
        return job, r

    results = []
    with ThreadPoolExecutor(max_workers=a.jobs) as ex:
        for job, r in ex.map(run, jobs):
            results.append((job, r))

    # ---- assemble per cell
    cells = {}
    for (h, ci, env, t, kind), r in results:
        cells.setdefault((h.fn, ci), {"harness": h.fn, "cell": {k: str(v) for k, v in env.items()}})[kind] = r
    known = [f for f in load_known() if f.get("property") == pid]
    violations, known_hits, samples = [], [], []
    obligations = discharged = inconclusive = 0
    tot = {"paths": 0, "confirmed": 0, "z3_checks": 0, "z3_s": 0.0, "unknown": 0, "pre_failed": 0, "refuted": 0}
    cell_records = []
    for (fn, ci), c in sorted(cells.items()):
        obligations += 1
        m = c["main"]
        tw = c.get("twin")
        for k in tot:
            tot[k] += m["stats"].get(k, 0)
        rec = {"harness": fn, "cell": c["cell"], "verdict": m["verdict"], "wall_s": m["wall_s"],
               "paths": m["stats"].get("paths", 0), "paths_reaching_post": m["stats"].get("confirmed", 0),
               "z3_checks": m["stats"].get("z3_checks", 0), "z3_s": m["stats"].get("z3_s", 0)}
        witness = None
        if tw is not None:
            if tw["verdict"] == "counterexample":
                witness = parse_call(tw["detail"])
                if witness:
                    witness = witness.replace("__reach(", "(", 1)
                    rec["reach_witness"] = witness
                    if len(samples) < 12:
                        samples.append(witness)
            elif tw["verdict"] == "pre_unsat":
                rec["reach"] = "vacuous"
            else:
                rec["reach"] = "twin " + tw["verdict"]
        if m["verdict"] == "confirmed":
            if tw is not None and tw["verdict"] == "pre_unsat":
                harness_errors.append(f"{fn} cell {c['cell']}: confirmed but twin vacuous")
            elif m["stats"].get("confirmed", 0) < 1:
                harness_errors.append(f"{fn} cell {c['cell']}: confirmed but no path reached the postcondition")
            else:
                discharged += 1
        elif m["verdict"] == "not_confirmed":
            inconclusive += 1
        elif m["verdict"] == "pre_unsat":
            harness_errors.append(f"{fn} cell {c['cell']}: {m['detail']}")
        elif m["verdict"] == "counterexample":
            call = parse_call(m["detail"])
            rec["counterexample"] = m["detail"][:500]
            if call is None:
                harness_errors.append(f"{fn}: cannot parse counterexample: {m['detail'][:300]}")
            else:
                res = concrete_call(modname, call, c["cell"])
                rec["replayed"] = res
                if res.get("ok") is False:
                    path = write_replay(pid, modname, call, c["cell"], res, {"crosshair": m["detail"][:500]})
                    violations.append((call, path))
                else:
                    harness_errors.append(
                        f"{fn} cell {c['cell']}: counterexample {call} does not reproduce concretely ({res})")
        else:
            harness_errors.append(f"{fn} cell {c['cell']}: worker error: {m['detail'][-600:]}")
        cell_records.append(rec)

    # ---- known findings: replay each listed witness concretely
    for f in known:
        if f.get("status") != "known":
            continue
        res = concrete_call(f["module"], f["witness"], f.get("env", {}))
        if res.get("ok") is False:
            print(f"KNOWN-FINDING: property={pid} {f['id']}: {f['what']} [witness {f['witness']} -> {res.get('exc') or res.get('result')}]")
            known_hits.append(f["id"])
        else:
            print(f"note: known finding {f['id']} no longer reproduces on this tree ({res})")

    wall = time.time() - t_start
    hmeta = []
    for h in harnesses:
        t = h.tiers[tier]
        hmeta.append({"harness": h.fn, "what": h.what, "targets": h.targets, "bound": t["bound"] or h.bounds,
                      "cells": len(t["cells"]), "per_condition_timeout_s": t["timeout"], "oracle": h.oracle,
                      "stubs": h.stubs, "outside_claim": h.outside})
    assumptions = sorted({s for h in harnesses for s in h.stubs} | {
        "CrossHair 0.0.110 models of Python built-ins and z3 5.1.0 are trusted",
        "each claim holds only inside the stated bound of its harness; cells not 'confirmed' are inconclusive"})
    ev = {
        "property_id": pid, "tier": tier, "seed": seed, "level": "other",
        "coverage": {
            "explanation": (
                "Solver-based bounded checking of the real code: each harness function calls hed-python's own "
                "functions (imported from /repo at run time) on symbolic arguments under CrossHair; every branch "
                "is a z3 query; a cell is discharged only when CrossHair reports 'Confirmed over all paths' for "
                "its precondition cell. obligations = cells; discharged = confirmed cells; "
                "inconclusive cells ran out of budget before the path tree was exhausted and claim nothing."),
            "obligations": obligations, "discharged": discharged, "inconclusive": inconclusive,
            "evaluations": max(tot["paths"], 1),
            "distinct_nontrivial": max(tot["confirmed"], 0),
            "rule": ("evaluations = symbolic execution paths attempted (each a distinct sequence of branch decisions, "
                     "standing for all inputs that take it); distinct_nontrivial = paths that satisfied every "
                     "precondition, ran the real code to the end and had the postcondition evaluated"),
            "samples": samples or ["(no reachability twin returned a witness in this run)"],
            "exhaustive": bool(obligations and discharged == obligations),
            "solver": {"z3_check_calls": tot["z3_checks"], "z3_seconds": round(tot["z3_s"], 2),
                       "paths_aborted_unknown": tot["unknown"], "paths_outside_cell": tot["pre_failed"]},
            "harnesses": hmeta, "cells": cell_records,
            "known_findings_reproduced": known_hits,
            "harness_errors": harness_errors,
            "checker_cmd": f"./check {pid} --tier {tier}",
            "trusted_base": ["crosshair-tool 0.0.110", "z3-solver 5.1.0", "CPython 3.12", "/verif/models oracles",
                             "/verif/vp stubs"],
        },
        "assumptions": assumptions,
        "wall_s": round(wall, 2),
        "violations": len(violations),
    }
    if not a.no_evidence and a.only is None:
        os.makedirs(os.path.join(VERIF, "evidence"), exist_ok=True)
        with open(os.path.join(VERIF, "evidence", f"{pid}.json"), "w") as f:
            json.dump(ev, f, indent=1)
        if tier == "thorough":      # keep the last thorough run next to the (usually quick) evidence file
            with open(os.path.join(VERIF, "evidence", f"{pid}.thorough.json"), "w") as f:
                json.dump(ev, f, indent=1)
    if not a.no_evidence and a.only is not None and tier == "thorough":
        # a thorough run restricted to some harnesses is kept as a partial record; it never replaces evidence/<id>.json
        ev["partial_only"] = a.only.split(",")
        with open(os.path.join(VERIF, "evidence", f"{pid}.thorough.partial.json"), "w") as f:
            json.dump(ev, f, indent=1)
    print(f"{pid} {tier}: cells={obligations} confirmed={discharged} inconclusive={inconclusive} "
          f"violations={len(violations)} harness_errors={len(harness_errors)} paths={tot['paths']} "
          f"z3_checks={tot['z3_checks']} z3_s={tot['z3_s']:.1f} wall={wall:.0f}s")
    for rec in cell_records:
        if rec["verdict"] != "confirmed":
            print(f"  {rec['harness']} {rec['cell']}: {rec['verdict']} paths={rec['paths']} wall={rec['wall_s']}")
    for call, path in violations:
        print(f"VIOLATION property={pid} replay={path}")
        print(f"  counterexample: {call}")
    if violations:
        sys.exit(1)
    if harness_errors:
        for e in harness_errors:
            print("HARNESS-ERROR:", e)
        sys.exit(3)
    sys.exit(0)


if __name__ == "__main__":
    main()
