"""CrossHair model accelerators (exact on ASCII; fall back to stock model otherwise)."""
import z3
from crosshair.libimpl.builtinslib import LazyIntSymbolicStr, SymbolicInt
from crosshair.tracers import NoTracing
from crosshair.statespace import context_statespace

_orig_casefold = LazyIntSymbolicStr.casefold
_orig_lower = LazyIntSymbolicStr.lower

def _ascii_lower(self, orig):
    n = len(self)            # may realize length (bounded by harness precondition)
    chars = [self[i] for i in range(n)]
    cps = [ord(c) for c in chars]
    for cp in cps:
        if not (cp < 128):   # forks once per char; non-ASCII -> stock model
            return orig(self)
    with NoTracing():
        out = []
        for cp in cps:
            if isinstance(cp, SymbolicInt):
                v = cp.var
                out.append(SymbolicInt(z3.If(z3.And(v >= 65, v <= 90), v + 32, v)))
            else:
                out.append(cp + 32 if 65 <= cp <= 90 else cp)
        return LazyIntSymbolicStr(out)

def install():
    LazyIntSymbolicStr.casefold = lambda self: _ascii_lower(self, _orig_casefold)
    LazyIntSymbolicStr.lower = lambda self: _ascii_lower(self, _orig_lower)
