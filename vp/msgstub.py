"""Empty-body stub for the TEXT of selected hed-python error messages (harness process only).

Why: some message functions format a *list* of tag strings (`f"... {tag_list_strings}"`).  `str(list)` calls
`repr()` on every element, and CrossHair's symbolic `str.__repr__` realises the string, which turns one
symbolic path into an enumeration of all names (measured on DefValidator.validate_onset_offset: > 2 800 paths
and no exhaustion where ~400 suffice).  The message text is not the subject of the checks that use this stub.

What is replaced: only the inner message function captured by the real `@hed_error` / `@hed_tag_error` wrapper
(its closure cell `func`).  The real wrapper — published code (`actual_code`), severity, `source_tag`,
`_create_error_object` — and `ErrorHandler.format_error` stay hed-python's own.
"""
from hed.errors.error_reporter import error_functions


def _const_message(*args, **kwargs):
    return "<message text stubbed>"


def mute(error_type):
    """Replace the message body registered for `error_type` by a constant; returns the original function."""
    wrapper = error_functions[error_type]
    inner = getattr(wrapper, "__wrapped__", None)
    if inner is None or wrapper.__closure__ is None:
        raise RuntimeError(f"msgstub: {error_type} is not wrapped the way error_reporter.py wraps messages")
    for cell in wrapper.__closure__:
        if cell.cell_contents is inner:
            cell.cell_contents = _const_message
            return inner
    raise RuntimeError(f"msgstub: message function of {error_type} not found in the wrapper's closure")
