"""Source-level re-generation of a /repo function with `is`/`is not` between non-singleton operands turned
into `==`/`!=`.

Why: HedString.split_into_groups compares one-character strings with `is` (relying on CPython's cache of
Latin-1 one-character strings).  A symbolic character is a proxy object, so identity is always False under
CrossHair although it is True in CPython.  The rewritten function is compiled from /repo's *current* source at
import time and installed only inside the harness process.  Equivalence on CPython: `s[i] is '('` is True iff
`s[i] == '('` (one-character Latin-1 strings are interned singletons; any other character is != '(' both ways).
"""
import ast
import inspect
import textwrap


class _IsToEq(ast.NodeTransformer):
    def visit_Compare(self, node):
        self.generic_visit(node)
        new_ops = []
        operands = [node.left] + list(node.comparators)
        for i, op in enumerate(node.ops):
            l, r = operands[i], operands[i + 1]
            singleton = any(isinstance(x, ast.Constant) and (x.value is None or isinstance(x.value, bool))
                            for x in (l, r))
            if isinstance(op, ast.Is) and not singleton:
                new_ops.append(ast.Eq())
            elif isinstance(op, ast.IsNot) and not singleton:
                new_ops.append(ast.NotEq())
            else:
                new_ops.append(op)
        node.ops = new_ops
        return node


def is_to_eq(cls, name):
    """Replace cls.<name> (plain/static/class method) by its is->== rewrite, compiled from current source."""
    raw = inspect.getattr_static(cls, name)
    fn = raw.__func__ if isinstance(raw, (staticmethod, classmethod)) else raw
    src = textwrap.dedent(inspect.getsource(fn))
    tree = ast.parse(src)
    fdef = tree.body[0]
    fdef.decorator_list = []
    tree = ast.fix_missing_locations(_IsToEq().visit(tree))
    ns = {}
    exec(compile(tree, inspect.getsourcefile(fn), "exec"), fn.__globals__, ns)
    new = ns[fdef.name]
    new.__qualname__ = fn.__qualname__
    if isinstance(raw, staticmethod):
        new = staticmethod(new)
    elif isinstance(raw, classmethod):
        new = classmethod(new)
    setattr(cls, name, new)
