"""Stub clock and stub portalocker for C19 (documented contracts only).

portalocker contract modelled: `Lock(filename, timeout=...)` only configures; `acquire()` opens the lock file
(creating it) and takes an exclusive lock, raising exceptions.LockException (AlreadyLocked) if another holder
has it for the whole timeout; `release()` unlocks.  The registry stands for the kernel's lock table: a lock is
*held* only between a successful acquire() and release().
"""


class LockException(Exception):
    pass


class AlreadyLocked(LockException):
    pass


class _Exc:
    LockException = LockException
    AlreadyLocked = AlreadyLocked


class Registry:
    def __init__(self, fs=None):
        self.held = []          # list of (filename, lock object)
        self.foreign = []       # filenames held by "another process"
        self.fs = fs
        self.overlap = False    # set if two holders ever coexist for one file

    def busy(self, filename):
        if filename in self.foreign:
            return True
        for f, _ in self.held:
            if f == filename:
                return True
        return False


class FakePortalocker:
    exceptions = _Exc
    LockException = LockException
    AlreadyLocked = AlreadyLocked

    def __init__(self, registry):
        reg = registry

        class Lock:
            def __init__(self, filename, mode="a", timeout=None, **kw):
                self.filename = filename
                self.acquired = False

            def acquire(self, timeout=None, **kw):
                if reg.fs is not None and not reg.fs.exists(self.filename):
                    reg.fs.create(self.filename)
                if reg.busy(self.filename):
                    raise AlreadyLocked(self.filename)
                reg.held.append((self.filename, self))
                self.acquired = True
                return self

            def release(self):
                reg.held = [(f, l) for f, l in reg.held if l is not self]
                self.acquired = False

            def __enter__(self):
                return self.acquire()

            def __exit__(self, *a):
                self.release()
        self.Lock = Lock


class FakeTime:
    def __init__(self, now):
        self.now = now

    def time(self):
        return self.now


def _v(o):
    if isinstance(o, Num):
        return o.v
    if type(o) is float and o.is_integer():
        return int(o)       # keep the arithmetic in LIA (clock values are whole seconds in this stub)
    return o


class Num:
    """format-inert number: arithmetic/comparisons delegate to the wrapped (symbolic) value; formatting is
    constant, so building an error message does not realise the value."""

    def __init__(self, v):
        self.v = v

    def __ch_deep_realize__(self, memo):
        # CrossHair's FORMAT_VALUE intercept deep-realises the formatted object; keep the wrapped value symbolic
        return self

    def __sub__(self, o):
        return Num(self.v - _v(o))

    def __rsub__(self, o):
        return Num(_v(o) - self.v)

    def __add__(self, o):
        return Num(self.v + _v(o))

    __radd__ = __add__

    def __lt__(self, o):
        return self.v < _v(o)

    def __le__(self, o):
        return self.v <= _v(o)

    def __gt__(self, o):
        return self.v > _v(o)

    def __ge__(self, o):
        return self.v >= _v(o)

    def __eq__(self, o):
        return self.v == _v(o)

    def __hash__(self):
        return 0

    def __format__(self, spec):
        return "<num>"

    def __str__(self):
        return "<num>"

    __repr__ = __str__
