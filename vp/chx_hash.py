"""CrossHair model accelerator: builtin ``hash()`` without the short-circuit fork.

CrossHair 0.0.110 intercepts the builtin ``hash`` with a function that carries a PEP-316 contract
(``post[]: -2**63 <= _ < 2**63``).  Every function with a contract is a *short-circuit candidate*: at each
call CrossHair forks the path tree ("skip the body and return an unconstrained symbolic int" / "call into
it").  hed-python calls ``hash()`` explicitly in ``HedTag.__hash__`` and ``HedSchemaEntry.__hash__``; every
tag that enters a set or dict therefore doubles the number of paths even when all data are concrete
(measured: ``Sidecar.validate`` on one concrete 2-character string = ~50 paths instead of 2-3), and on the
skipped branch the tag's hash is an arbitrary integer unrelated to its text.

``install()`` replaces the interception by the same body *without* the contract, so ``hash(x)`` always
executes ``type(x).__hash__(x)`` (symbolic values are realised by their own ``__hash__`` exactly as
before).  This changes CrossHair's model only; nothing in hed-python is touched.
"""
from crosshair import core
from crosshair.tracers import NoTracing
from crosshair.libimpl.builtinslib import invoke_dunder
from crosshair.util import is_hashable

_builtin_hash = hash


def _hash_no_shortcircuit(obj):
    with NoTracing():
        if not is_hashable(obj):
            return _builtin_hash(obj)  # error in the native way
    return invoke_dunder(obj, "__hash__")


def install():
    core._PATCH_REGISTRATIONS[_builtin_hash] = _hash_no_shortcircuit
