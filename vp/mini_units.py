"""Pruned variant of the mini schema for the unit harnesses (C11), built through hed-python's own loader.

Starting from vp.mini.wiki_text() (real 8.3.0 sections around the tiny-name tag tree):
  * the ``'''Unit modifiers'''`` section is cut down to KEEP_MODIFIERS (two SIUnitModifier names, two
    SIUnitSymbolModifier symbols, one of them upper-case so that symbol case matters),
  * one root ``M`` with a value child ``# {takesValue, valueClass=numericClass, unitClass=currencyUnits}`` is appended to
    the tag tree, so that a unit with ``unitPrefix`` (``$``) is reachable (no mini node uses currencyUnits),
  * everything else (unit classes with the real timeUnits / currencyUnits, value classes, attributes, properties) is
    unchanged, and the text is loaded by the real MediaWiki loader.

Why: a lookup of a symbolic unit text forks per entry of the derivative-unit table (73 entries for timeUnits with the
40 real modifiers -> 17 here).  Kernels that cross the unit text with a symbolic number text use this schema; the
full 73-entry table is covered by the kernel with a fixed number text on vp.mini.MINI.

Everything here is concrete and runs at import time.
"""
from hed.schema import from_string

from vp import mini

KEEP_MODIFIERS = ["milli", "m", "kilo", "M"]
EXTRA_TAGS = ["'''M''' <nowiki>[Root m: money.]</nowiki>",
              "* <nowiki># {takesValue, valueClass=numericClass, unitClass=currencyUnits} [m value]</nowiki>"]


def wiki_text():
    lines = mini.wiki_text().split("\n")
    out = []
    in_mod = False
    for line in lines:
        if line.startswith("'''"):
            in_mod = line.startswith("'''Unit modifiers'''")
        if line == "!# end schema":
            out.extend(EXTRA_TAGS)
            out.append("")
        if in_mod and line.startswith("*"):
            name = line.lstrip("*").split("<nowiki>")[0].strip()
            if name not in KEEP_MODIFIERS:
                continue
        out.append(line)
    return "\n".join(out)


WIKI = wiki_text()
MINI_U = from_string(WIKI, ".mediawiki")


if __name__ == "__main__":
    from hed import HedString
    for c in ("timeUnits", "currencyUnits"):
        print(c, sorted(MINI_U.unit_classes[c].derivative_units))
    for t in ["C/3 ms", "C/3 Ms", "C/3 us", "C/3 kiloseconds", "M/$ 3", "M/3 $", "M/3 dollars", "M/3", "M/3 euro", "M/dollar 3"]:
        hs = HedString(t, MINI_U)
        tag = hs.get_all_tags()[0]
        try:
            v = tag.value_as_default_unit()
        except Exception as e:
            v = repr(e)
        print(t, [(i['code'], i['severity']) for i in hs.validate()], tag.get_stripped_unit_value(tag.extension), v)
