"""Reference statements for C12 (issue well-formedness), written from the property text and the HED error tables.

Hash-free (lists, tuples, chained ==): usable on CrossHair symbolic values.

What the property says, as predicates:
  * an issue has a code, a message and a severity (ERROR=1 / WARNING=10);
  * character offsets, when present, satisfy 0 <= char_index <= char_index_end <= len(text), lie inside the span of
    the tag the issue names, and text[char_index:char_index_end] is exactly the fragment the message quotes;
  * the location suffix ("Problem spans string indexes: a, b") occurs in the message exactly once;
  * errors-only == the error-severity sub-list (same order) of the list obtained with warnings on;
  * sorting is a stable permutation ordered by file, then sidecar column and key, then row (a missing row sorts
    as -1, a missing name as "");
  * after reference replacement every value is a JSON value and the codes are unchanged.
"""

ERROR = 1
WARNING = 10
MARK = "Problem spans string indexes"

K_FILE = "ec_filename"
K_COL = "ec_sidecarColumnName"
K_KEY = "ec_sidecarKeyName"
K_ROW = "ec_row"
K_STR = "ec_HedString"

# ---------------------------------------------------------------------------------------------------------------
# Messages that quote a fragment of a tag (wrappers registered with has_sub_tag=True).
#   (registered type, code reported to the user, default severity, extra keyword name or None, message parts)
# message parts: "T" = the tag's original text, "F" = the quoted fragment, "X" = the extra argument, else literal.
SUBTAG = [
    ("TAG_EXTENDED", "TAG_EXTENDED", WARNING, None,
     ["Hed tag is extended. '", "F", "' in ", "T"]),
    ("invalidTagCharacter", "CHARACTER_INVALID", ERROR, None,
     ["Invalid character '", "F", "' in tag '", "T", "'"]),
    ("INVALID_VALUE_CLASS_CHARACTER", "CHARACTER_INVALID", ERROR, "value_class",
     ["Invalid character '", "F", "' in tag '", "T", "' for value class '", "X", "'"]),
    ("INVALID_VALUE_CLASS_VALUE", "VALUE_INVALID", ERROR, "value_class",
     ["'", "T", "' has an invalid value portion for value class '", "X", "'"]),
    ("CURLY_BRACE_UNSUPPORTED_HERE", "SIDECAR_BRACES_INVALID", ERROR, None,
     ["Curly braces are only permitted in sidecars, fully wrapping text in place of a tag.  "
      "Invalid character '", "F", "' in tag '", "T", "'"]),
    ("invalidParent", "TAG_EXTENSION_INVALID", ERROR, "expected_parent_tag",
     ["In '", "T", "', '", "F", "' appears as '", "X", "' and cannot be used as an extension."]),
    ("invalidTag", "TAG_INVALID", ERROR, None,
     ["'", "F", "' in ", "T", " is not a valid base HED tag."]),
    ("NODE_NAME_EMPTY", "TAG_INVALID", ERROR, None,
     ["Extra slashes or spaces '", "F", "' in tag '", "T", "'"]),
]

# Messages that quote a whole tag or group (has_sub_tag=False), one-argument forms.
WHOLE = [
    ("HED_GROUP_EMPTY", "TAG_EMPTY", ERROR,
     ["HED tags cannot be empty.  Extra delimiters found: '", "T", "'"]),
    ("ELEMENT_DEPRECATED", "ELEMENT_DEPRECATED", WARNING,
     ["Element '", "T", "' has been deprecated and an alternative method of tagging should be used"]),
    ("HED_TAG_REPEATED", "TAG_EXPRESSION_REPEATED", ERROR,
     ['Repeated tag - "', "T", '"']),
    ("TAG_REQUIRES_CHILD", "TAG_REQUIRES_CHILD", ERROR,
     ["Descendant tag required - '", "T", "'"]),
    ("STYLE_WARNING", "STYLE_WARNING", WARNING,
     ["First word not capitalized or camel case - '", "T", "'"]),
]


# Messages of issues that name no tag (hed_error wrappers): "X" first argument, "Y" second argument.
PLAIN = [
    ("COMMA_MISSING", "COMMA_MISSING", ERROR, ["Comma missing after - '", "X", "'"]),
    ("SIDECAR_KEY_MISSING", "SIDECAR_KEY_MISSING", WARNING,
     ["Category key '", "X", "' does not exist in column.  Valid keys are: ", "Y"]),
]


def _literals():
    out = []
    for row in SUBTAG + WHOLE + PLAIN:
        for p in row[-1]:
            if p not in ("T", "F", "X", "Y"):
                out.append(p)
    return out


# Why `message == render(...) + suffix(a, b)` implies "the marker occurs exactly once" for the harness inputs
# (inserted texts of at most 3 characters, never adjacent in a template): MARK starts with 'P'; no literal piece
# contains 'P', so another occurrence would have to start inside an inserted text and continue into the literal
# that follows it, which then had to start with the rest of "Problem".
assert all("P" not in p for p in _literals())
assert all(not p.startswith(("roblem", "oblem", "blem")) for p in _literals())


def render(parts, tag_text, fragment, extra="", extra2=""):
    out = ""
    for p in parts:
        if p == "T":
            out = out + tag_text
        elif p == "F":
            out = out + fragment
        elif p == "X":
            out = out + extra
        elif p == "Y":
            out = out + extra2
        else:
            out = out + p
    return out


def suffix(a, b):
    """The location suffix for concrete offsets a, b (the harness calls this after the ints were compared)."""
    return "  " + MARK + ": " + str(a) + ", " + str(b)


def expected_message(base, located, a=0, b=0):
    """the whole message of an issue: its base text, plus the location suffix exactly once iff it is located"""
    if located:
        return base + suffix(a, b)
    return base


def count_mark(message):
    """(for concrete messages; find() on a symbolic message forks per position)
    number of (non-overlapping) occurrences of the location marker, by a left-to-right scan with find()"""
    n = 0
    pos = message.find(MARK)
    while pos != -1:
        n += 1
        pos = message.find(MARK, pos + len(MARK))
    return n


def well_formed(issue):
    """code, message, severity present with the right kinds"""
    if "code" not in issue or "message" not in issue or "severity" not in issue:
        return False
    if not isinstance(issue["code"], str) or not isinstance(issue["message"], str):
        return False
    if issue["code"] == "":
        return False
    sev = issue["severity"]
    return sev == ERROR or sev == WARNING


def offsets_ok(issue, text_len, span):
    """offsets inside the text and inside the named tag's span (span = (a, b))"""
    ci = issue["char_index"]
    ce = issue["char_index_end"]
    if not (0 <= ci <= ce <= text_len):
        return False
    a, b = span
    return a <= ci and ce <= b


# ---------------------------------------------------------------------------------------------------------------
def error_subset(issues):
    """the error-severity sub-list, same order"""
    out = []
    for i in issues:
        if i["severity"] == ERROR:
            out.append(i)
    return out


def same_objects(xs, ys):
    if len(xs) != len(ys):
        return False
    for x, y in zip(xs, ys):
        if x is not y:
            return False
    return True


def sort_key(issue):
    """(file, sidecar column, sidecar key, row) with the stated defaults"""
    return (issue.get(K_FILE, ""), issue.get(K_COL, ""), issue.get(K_KEY, ""), issue.get(K_ROW, -1))


def key_less(ka, kb):
    """strict lexicographic < on the 4-tuples, written out (no tuple comparison on mixed symbolic values)"""
    for x, y in zip(ka, kb):
        if x < y:
            return True
        if y < x:
            return False
    return False


def is_stable_sorted_permutation(before, after, tag="id"):
    """`after` is `before` reordered (each input object exactly once, identified by its unique concrete `tag` value),
    non-decreasing in sort_key, and objects with equal keys keep their input order."""
    if len(before) != len(after):
        return False
    seen = []
    for x in after:
        t = x[tag]
        if t in seen:
            return False
        seen.append(t)
        if not (0 <= t < len(before)) or before[t] is not x:
            return False
    for x, y in zip(after, after[1:]):
        kx = sort_key(x)
        ky = sort_key(y)
        if key_less(ky, kx):
            return False
        if not key_less(kx, ky) and x[tag] > y[tag]:
            return False
    return True


# ---------------------------------------------------------------------------------------------------------------
def json_value(v, depth=6):
    """v is a JSON value: None/bool/int/float/str, list of JSON values, or dict with str keys and JSON values
    (what json.dumps accepts without a `default` hook), checked structurally."""
    if v is None or isinstance(v, (bool, int, float, str)):
        return True
    if depth <= 0:
        return False
    if isinstance(v, list):
        for x in v:
            if not json_value(x, depth - 1):
                return False
        return True
    if isinstance(v, dict):
        for k in v:
            if not isinstance(k, str):
                return False
            if not json_value(v[k], depth - 1):
                return False
        return True
    return False
