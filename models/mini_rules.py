"""Reference tag resolver for the mini schema, written from the HED rules / the text of C03 - not from hed-python.

The tag tree is the one read from models/mini_tags.mediawiki by vp.mini.tree() (plain text parsing, no hed-python
objects).  Everything below is hash-free (lists, `==`, `in` on lists) so that it can run on CrossHair symbolic
strings, and uses only str.find / slicing / str.lower on the text.

Rules implemented (HED specification, "tag forms" and "extensions"; property C03):
  R1  A tag is written as slash-separated terms.  The first term must be the name of a schema node (any node,
      anywhere in the tree: "every partial path ending in a node is a valid spelling"); each following term is
      consumed while it names a child of the node reached so far.  Resolution is left to right and stops at the
      first term that is not such a child.  Names compare case-insensitively (here: equal after str.lower();
      the harnesses using this module claim printable ASCII only, where lower() and casefold() coincide).
  R2  "#" is the value placeholder, never a node name that a term can match.
  R3  What is left (from the slash in front of the first unconsumed term to the end) is the remainder and is kept
      exactly as written.
  R4  A non-empty remainder under a node that has a "#" child is a value: the tag denotes that "#" child.
  R5  A non-empty remainder under a node without "#" child is an extension; no term of an extension may itself be
      the name of a schema node (else the tag does not resolve: "invalid parent node").  Whether extension is
      *allowed* there is a validation question (see extension_allowed), not a resolution question.
  R6  A namespace prefix is the text up to and including the first ":" when that colon comes before the first
      "/"; it must be exactly one of the loaded schemas' prefixes.

API
  resolve(text)                      -> (node_long_name | None, remainder | None)        text WITHOUT namespace
  resolve_ns(text, prefixes=("",))   -> (prefix | None, node_long_name | None, remainder | None)
  split_namespace(text)              -> (prefix, rest)
  long_form(node, remainder, prefix="") / short_form(...)   canonical spellings
  base_long(node) / base_short(node) names with a trailing "/#" removed
  node(long) / has_attr(long, attr, inherited=False) / extension_allowed(long) / takes_value(long) / nodes()
  spellings(long)                    -> every suffix-path spelling of a node (canonical case), concrete helper
"""
from vp import mini as _mini

NODES = _mini.tree()        # list of dict(name, long, parent, attrs, is_value), document order
_PLAIN = [n for n in NODES if not n["is_value"]]

# node names are unique in a HED schema; the resolver relies on it (first match == only match)
_low_names = [n["name"].lower() for n in _PLAIN]
assert len(_low_names) == len(set(_low_names)), "mini schema: node names must be unique"


def nodes():
    return NODES


def node(long_name):
    for n in NODES:
        if n["long"] == long_name:
            return n
    return None


def _by_name(term_low):
    """the plain (non-#) node whose name equals the lower-cased term, or None"""
    for n in _PLAIN:
        if n["name"].lower() == term_low:
            return n
    return None


def _child(parent, term_low):
    for n in _PLAIN:
        if n["parent"] == parent["long"] and n["name"].lower() == term_low:
            return n
    return None


def _value_child(parent):
    for n in NODES:
        if n["is_value"] and n["parent"] == parent["long"]:
            return n
    return None


def _next_term(text, start):
    """(term, end) where term = text[start:end] is the slash-free term beginning at start"""
    end = text.find("/", start)
    if end == -1:
        end = len(text)
    return text[start:end], end


def resolve(text):
    """Left-to-right resolution of `text` (no namespace prefix) against the mini tree.

    Returns (long name of the node as in vp.mini.tree(), e.g. "A/B/C" or "A/B/C/#", remainder kept verbatim:
    "" or a string starting with "/"), or (None, None) when the text is not a spelling of any node."""
    term, end = _next_term(text, 0)
    cur = _by_name(term.lower())                      # R1: any node may start a partial path
    if cur is None:
        return None, None
    while end < len(text):                            # text[end] == "/"
        term, nxt = _next_term(text, end + 1)
        child = _child(cur, term.lower())             # R2: "#" nodes are not among the candidates
        if child is None:
            break
        cur, end = child, nxt
    remainder = text[end:]                            # R3
    if remainder == "":
        return cur["long"], ""
    value = _value_child(cur)
    if value is not None:                             # R4
        return value["long"], remainder
    pos = end                                         # R5
    while pos < len(text):
        term, pos = _next_term(text, pos + 1)
        if _by_name(term.lower()) is not None:
            return None, None
    return cur["long"], remainder


def split_namespace(text):
    """R6: ("p:", rest) when a colon precedes the first slash, else ("", text)."""
    colon = text.find(":")
    if colon == -1:
        return "", text
    slash = text.find("/")
    if slash != -1 and slash < colon:
        return "", text
    return text[:colon + 1], text[colon + 1:]


def resolve_ns(text, prefixes=("",)):
    """-> (prefix, node_long, remainder); (None, None, None) when the prefix is not one of `prefixes` or the
    rest does not resolve."""
    prefix, rest = split_namespace(text)
    for p in prefixes:
        if p == prefix:                 # exact match; the element of `prefixes` (a concrete str) is returned
            n, r = resolve(rest)
            if n is None:
                return None, None, None
            return p, n, r
    return None, None, None


def base_long(long_name):
    """long name of the tag a node stands for: 'A/B/C/#' -> 'A/B/C'"""
    return long_name[:-2] if long_name.endswith("/#") else long_name


def base_short(long_name):
    b = base_long(long_name)
    return b[b.rfind("/") + 1:]


def long_form(long_name, remainder, prefix=""):
    return prefix + base_long(long_name) + remainder


def short_form(long_name, remainder, prefix=""):
    return prefix + base_short(long_name) + remainder


def takes_value(long_name):
    return long_name.endswith("/#")


def has_attr(long_name, attr, inherited=False):
    """attribute written on the node itself; with inherited=True also on any ancestor (a '#' node does not
    inherit: HED value nodes carry their own attributes only)."""
    n = node(long_name)
    while n is not None:
        for a in n["attrs"]:
            if a == attr or a.startswith(attr + "="):
                return True
        if not inherited or n["is_value"] or n["parent"] == "":
            return False
        n = node(n["parent"])
    return False


def extension_allowed(long_name):
    """extensionAllowed is inherited down the tree; never applies to a value node."""
    if takes_value(long_name):
        return False
    return has_attr(long_name, "extensionAllowed", inherited=True)


def spellings(long_name):
    """every suffix-path spelling of a node in canonical case (concrete helper, e.g. for fixed-shape harnesses):
    'A/B/C' -> ['A/B/C', 'B/C', 'C']"""
    b = base_long(long_name)
    out = []
    while True:
        out.append(b)
        i = b.find("/")
        if i == -1:
            return out
        b = b[i + 1:]
