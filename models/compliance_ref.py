"""C14 reference readings of the schema attribute rules.

Written from the property text (properties.jsonl, C14), the HED schema-error vocabulary (the `actual_code`
each message is registered under in hed/errors/schema_error_messages.py is the specification's code) and the
wording of the rule docstrings / messages — not from the bodies of the rule functions.

Every `*_expect` function returns the list of specification codes the rule must report for the given attribute
value (order-free; callers compare sorted lists), or `None` where the texts above do not decide the case
("unspecified": the harness then only requires that the rule returns a list of issues without raising).

Hash-free on symbolic values (lists, `in` on lists / on concrete sets, `ord` arithmetic) so that CrossHair
executes it symbolically.
Characters are compared through `ord()`: `<=` on symbolic one-character strings is ~40x slower (measured).
"""

VALUE_INVALID = "SCHEMA_ATTRIBUTE_VALUE_INVALID"     # "the value of an attribute is invalid"
ATTRIBUTE_INVALID = "SCHEMA_ATTRIBUTE_INVALID"       # attribute not allowed where it is used
DEPRECATION_ERROR = "SCHEMA_DEPRECATION_ERROR"
CHARACTER_INVALID = "SCHEMA_CHARACTER_INVALID"


# --------------------------------------------------------------------------------------------- text helpers
def _cps(s):
    return [ord(c) for c in s]


def _digit(c):
    return 48 <= c <= 57


def _blank(c):
    return c == 32 or (9 <= c <= 13)


def split_commas(s):
    """s split at every ',' (hash-free; keeps empty pieces)"""
    out = []
    cur = ""
    for ch in s:
        if ch == ",":
            out.append(cur)
            cur = ""
        else:
            cur = cur + ch
    out.append(cur)
    return out


def _lower(c):
    return c + 32 if 65 <= c <= 90 else c


def _spells(cp, word):
    if len(cp) != len(word):
        return False
    for i in range(len(word)):
        if _lower(cp[i]) != ord(word[i]):
            return False
    return True


def same_ignoring_ascii_case(a, b):
    if len(a) != len(b):
        return False
    for i in range(len(a)):
        if _lower(ord(a[i])) != _lower(ord(b[i])):
            return False
    return True


# --------------------------------------------------------------------------------------------- numbers
# A number in a schema file: [sign] digits [. digits] | [sign] . digits, optionally followed by an exponent
# `e`/`E` (and, for conversionFactor, the schema files' `^`), [sign] digits.
NUM_POS, NUM_ZERO, NUM_NEG, NUM_LENIENT, NUM_NAN, NUM_NOT = "pos", "zero", "neg", "lenient", "nan", "not"


def _digits_end(cp, k):
    while k < len(cp) and _digit(cp[k]):
        k += 1
    return k


def _plain_number(cp, caret):
    """-> NUM_POS/NUM_ZERO/NUM_NEG for text in the grammar above, None otherwise.
    Exponents of three or more digits are left to the caller as lenient (under/overflow is not the rule's subject)."""
    k = 0
    neg = False
    if k < len(cp) and (cp[k] == 43 or cp[k] == 45):
        neg = cp[k] == 45
        k += 1
    a = k
    k = _digits_end(cp, k)
    int_digits = k - a
    frac_digits = 0
    m_end = k
    if k < len(cp) and cp[k] == 46:
        b = k + 1
        k = _digits_end(cp, b)
        frac_digits = k - b
        m_end = k
    if int_digits + frac_digits == 0:
        return None
    nonzero = False
    for i in range(a, m_end):
        if 49 <= cp[i] <= 57:
            nonzero = True
    if k < len(cp):
        if not (cp[k] == 101 or cp[k] == 69 or (caret and cp[k] == 94)):
            return None
        k += 1
        if k < len(cp) and (cp[k] == 43 or cp[k] == 45):
            k += 1
        e = k
        k = _digits_end(cp, k)
        if k == e or k != len(cp):
            return None
        if k - e >= 3:
            return NUM_LENIENT
    if not nonzero:
        return NUM_ZERO
    return NUM_NEG if neg else NUM_POS


def classify_number(s, caret):
    cp = _cps(s)
    r = _plain_number(cp, caret)
    if r is not None:
        return r
    # leniencies of a particular number parser that the rule texts neither demand nor forbid: blanks around the
    # number, single underscores between digits, an exponent marker the attribute does not document, infinity
    i, j = 0, len(cp)
    while i < j and _blank(cp[i]):
        i += 1
    while j > i and _blank(cp[j - 1]):
        j -= 1
    core = []
    for k in range(i, j):
        if cp[k] == 95 and i < k < j - 1 and _digit(cp[k - 1]) and _digit(cp[k + 1]):
            continue
        core.append(cp[k])
    if _plain_number(core, True) is not None:
        return NUM_LENIENT
    body = core[1:] if core and (core[0] == 43 or core[0] == 45) else core
    if _spells(body, "inf") or _spells(body, "infinity"):
        return NUM_LENIENT
    if _spells(body, "nan"):
        return NUM_NAN
    return NUM_NOT


def conversion_factor_expect(s):
    """'a non-positive conversion factor ... is reported'; 'Conversion factor must be positive.'
    Not-a-number is not a positive number."""
    k = classify_number(s, True)
    if k == NUM_POS:
        return []
    if k == NUM_LENIENT:
        return None
    return [VALUE_INVALID]


def numeric_value_expect(s):
    """numericRange attribute: 'Should be numeric.'"""
    k = classify_number(s, False)
    if k == NUM_POS or k == NUM_ZERO or k == NUM_NEG:
        return []
    if k == NUM_LENIENT or k == NUM_NAN:
        return None
    return [VALUE_INVALID]


# --------------------------------------------------------------------------------------------- allowedCharacter
# 'Allowed characters are: a single character, or one of the following - <group names>' (HED 8.3 character groups)
CHARACTER_GROUPS = [
    "ascii", "nonascii", "printable", "lowercase", "uppercase", "letters", "digits", "alphanumeric",
    "tab", "newline", "blank", "exclamation", "double-quote", "number-sign", "dollar", "percent-sign",
    "ampersand", "single-quote", "left-paren", "right-paren", "asterisk", "plus", "comma", "hyphen", "period",
    "slash", "colon", "semicolon", "less-than", "equals", "greater-than", "question-mark", "at-sign",
    "backslash", "caret", "underscore", "vertical-bar", "tilde", "text", "name",
]


def allowed_characters_expect(value):
    out = []
    for item in split_commas(value):
        if len(item) != 1 and item not in CHARACTER_GROUPS:
            out.append(VALUE_INVALID)
    return out


# --------------------------------------------------------------------------------------------- inLibrary
def in_library_expect(value, schema_libraries):
    """'a foreign inLibrary name' is reported: the value must be one of the library names of the schema header
    (comma separated for a schema merged from several libraries; empty for a standard schema)."""
    if value in split_commas(schema_libraries):
        return []
    return [VALUE_INVALID]


# --------------------------------------------------------------------------------------------- '#' placeholder
def placeholder_expect(name, has_parent, n_siblings, n_children):
    """'class attributes on a node that is not a '#' placeholder' is reported; 'Placeholder tags must be an only
    child'; 'Placeholder tags must have no children'.  A '#' with no parent path is not decided here."""
    if name == "#":
        return None
    out = []
    n = len(name)
    if not (n >= 2 and name[n - 1] == "#" and name[n - 2] == "/"):
        out.append(VALUE_INVALID)
    if has_parent and n_siblings > 0:
        out.append(ATTRIBUTE_INVALID)
    if n_children > 0:
        out.append(ATTRIBUTE_INVALID)
    return out


# --------------------------------------------------------------------------------------------- deprecatedFrom
def version_key(major, minor, patch):
    """decimal value of three strings of ASCII digits"""
    out = []
    for part in (major, minor, patch):
        v = 0
        for ch in part:
            v = v * 10 + (ord(ch) - 48)
        out.append(v)
    return out


def _older(a, b):
    for i in range(3):
        if a[i] != b[i]:
            return a[i] < b[i]
    return False


def deprecated_from_expect(value, released, home_version, n_children_not_deprecated):
    """'a deprecatedFrom version that is unknown or not older than the schema' is reported; every child of a
    deprecated element must be deprecated too.
    released: [(text, key)] versions released for the library the element belongs to; home_version: key of that
    library's version in the schema being checked (the partner's version for a standard element of a partnered
    schema)."""
    ok = False
    for text, key in released:
        if value == text and _older(key, home_version):
            ok = True
    out = [] if ok else [DEPRECATION_ERROR]
    for _ in range(n_children_not_deprecated):
        out.append(DEPRECATION_ERROR)
    return out


# --------------------------------------------------------------------------------------------- item lists
def item_list_expect(value, names, deprecated_names, holder_deprecated, case_insensitive_forms=False):
    """'a unit or value class or suggested/related tag that does not exist' is reported (value = comma separated
    names); an existing but deprecated item on a non-deprecated holder is a deprecation error.
    names: every spelling the section offers (for tags: short name, long name and partial paths).
    A spelling that differs from a name only in ASCII letter case is not decided here."""
    out = []
    for item in split_commas(value):
        if item == "":
            continue
        if item in names:
            if item in deprecated_names and not holder_deprecated:
                out.append(DEPRECATION_ERROR)
            continue
        for n in names:
            if same_ignoring_ascii_case(item, n):
                return None
        out.append(VALUE_INVALID)
    return out


# --------------------------------------------------------------------------------------------- hedId
ID_OK, ID_LENIENT, ID_BAD = "ok", "lenient", "bad"


def classify_id_digits(body):
    """body = text after 'HED_'.  'It must be an integer in the format of HED_XXXXXXX.'"""
    cp = _cps(body)
    if len(cp) > 0:
        alld = True
        for c in cp:
            if not _digit(c):
                alld = False
        if alld:
            return ID_OK
    # leniencies of one integer parser (blanks, sign, single underscores between digits): not decided
    i, j = 0, len(cp)
    while i < j and _blank(cp[i]):
        i += 1
    while j > i and _blank(cp[j - 1]):
        j -= 1
    if i < j and (cp[i] == 43 or cp[i] == 45):
        i += 1
    if i < j:
        fine = True
        for k in range(i, j):
            if _digit(cp[k]):
                continue
            if cp[k] == 95 and i < k < j - 1 and _digit(cp[k - 1]) and _digit(cp[k + 1]):
                continue
            fine = False
        if fine:
            return ID_LENIENT
    return ID_BAD


def id_value(body):
    v = 0
    for ch in body:
        v = v * 10 + (ord(ch) - 48)
    return v


def hed_id_expect(body, old_value, id_range):
    """'an out-of-range or changed hedId' is reported.
    old_value: the id the same element has in the previous released version of its library (None: none);
    id_range: (lo, hi) reserved for the element's library (None: unknown library)."""
    k = classify_id_digits(body)
    if k == ID_LENIENT:
        return None
    if k == ID_BAD:
        return [VALUE_INVALID]
    new = id_value(body)
    out = []
    if old_value is not None and old_value != new:
        out.append(VALUE_INVALID)
    if id_range is not None and not (id_range[0] <= new <= id_range[1]):
        out.append(VALUE_INVALID)
    return out


# --------------------------------------------------------------------------------------------- character classes
# Membership of one character in a *concrete* set: CrossHair turns `ch in <set>` into a scan without hashing
# (one solver question with vp/chset.py); comparing code points range by range would fork ~10x per character.
_LETTERS = "abcdefghijklmnopqrstuvwxyz"
# 'name' = letters, digits, hyphen, period, underscore (+ non-ASCII)
NAME_CHARS = set(_LETTERS + _LETTERS.upper() + "0123456789" + "-._")
# description text: printable ASCII except [ ] { } (comma allowed in descriptions) (+ non-ASCII)
DESCRIPTION_CHARS = set(chr(c) for c in range(32, 127)) - set("[]{}")
# 'nonascii' = 'all other printable unicode characters': decided here only for the printable letters and signs
# U+00A1..U+017F (U+00AD is a format character); other code points above 127 are not decided.
DECIDED_NONASCII = set(chr(c) for c in range(0xA1, 0x180) if c != 0xAD)


def problem_positions(text, ascii_allowed):
    """indexes of the characters of text that are not allowed; None if some character is not decided"""
    out = []
    i = 0
    for ch in text:
        if ch in DECIDED_NONASCII:
            pass
        elif ord(ch) > 127:
            return None
        elif ch not in ascii_allowed:
            out.append(i)
        i += 1
    return out


def term_allowed(extra_chars):
    """extra_chars: characters added by the entry's own allowedCharacter groups"""
    return NAME_CHARS | set(extra_chars)


def term_problem_positions(term, allowed):
    return problem_positions(term, allowed)


def description_problem_positions(desc):
    return problem_positions(desc, DESCRIPTION_CHARS)
