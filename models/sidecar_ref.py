"""Reference reading of the structural rules for a JSON sidecar (C08), written from the property text and the
HED specification's description of sidecars -- NOT from hed-python.  Hash-free (lists, `in` on lists, `==`).

A sidecar is a JSON object {column name: entry}.  An entry *bears HED* when it is an object with a key "HED".
  * The "HED" value must be a string (-> a VALUE column: one annotation with exactly one '#') or an object
    (-> a CATEGORICAL column: {category key: annotation string with no '#'}).
  * "HED" may not be used as a column name; "n/a" may not be a category key.
  * An entry that does not bear HED is ignored, but may not hide a key "HED" deeper inside.
  * Inside annotation strings, a curly-brace reference {x} must be balanced, not nested inside another brace,
    must name a HED-bearing column of the same sidecar (or "HED"), must not name its own column, and the
    column it names must not itself contain references.

`faults(doc)` returns the list of rule classes a document breaks (empty = obeys every rule); `CODES` gives,
per rule class, the issue codes that count as "that rule's code".  hed-python reports most structural faults
under the specification's code SIDECAR_INVALID but type faults under library-local codes
(wrongHedDataType / sidecarUnknownColumn / blankValueString); the property text names no codes, so for the
type rule any of the library's sidecar-structure codes is accepted (stated in the evidence).
"""

SIDECAR_INVALID = "SIDECAR_INVALID"
BRACES_INVALID = "SIDECAR_BRACES_INVALID"
PLACEHOLDER_INVALID = "PLACEHOLDER_INVALID"
WRONG_TYPE = "wrongHedDataType"
UNKNOWN_COLUMN = "sidecarUnknownColumn"
BLANK = "blankValueString"

# rule classes
HED_COLUMN = "hed-used-as-column-name"
HED_MISPLACED = "hed-key-inside-an-entry-without-HED"
BAD_HED_TYPE = "HED-entry-neither-string-nor-object"
BAD_CAT_VALUE = "category-value-not-a-string"
BLANK_CAT = "category-value-empty-or-no-categories"
NA_KEY = "n/a-used-as-category-key"
POUND_VALUE = "value-column-without-exactly-one-#"
POUND_CAT = "category-string-with-#"
BRACE_SHAPE = "unbalanced-or-nested-braces"
UNKNOWN_REF = "reference-to-unknown-column"
SELF_REF = "self-reference"
NESTED_REF = "reference-to-a-column-that-has-references"

STRUCTURE_RULES = [HED_COLUMN, HED_MISPLACED, BAD_HED_TYPE, BAD_CAT_VALUE, BLANK_CAT, NA_KEY]
REF_RULES = [BRACE_SHAPE, UNKNOWN_REF, SELF_REF, NESTED_REF]
POUND_RULES = [POUND_VALUE, POUND_CAT]

TYPE_CODES = [WRONG_TYPE, UNKNOWN_COLUMN, BLANK, SIDECAR_INVALID]
CODES = {
    HED_COLUMN: [SIDECAR_INVALID], HED_MISPLACED: [SIDECAR_INVALID], NA_KEY: [SIDECAR_INVALID],
    BAD_HED_TYPE: TYPE_CODES, BAD_CAT_VALUE: TYPE_CODES, BLANK_CAT: [BLANK, SIDECAR_INVALID],
    POUND_VALUE: [PLACEHOLDER_INVALID], POUND_CAT: [PLACEHOLDER_INVALID],
    BRACE_SHAPE: [BRACES_INVALID], UNKNOWN_REF: [BRACES_INVALID], SELF_REF: [BRACES_INVALID],
    NESTED_REF: [BRACES_INVALID],
}
# every code that only a structural fault may produce (a rule-abiding sidecar shows none of them)
STRUCTURE_CODES = [SIDECAR_INVALID, WRONG_TYPE, UNKNOWN_COLUMN, BLANK]
ALL_RULE_CODES = STRUCTURE_CODES + [BRACES_INVALID, PLACEHOLDER_INVALID]


# ---------------------------------------------------------------- column kinds
def kind(entry):
    """'ignore' (does not bear HED), 'value', 'categorical', or 'badtype' (HED value of another type)."""
    if not isinstance(entry, dict):
        return "ignore"
    if "HED" not in entry:
        return "ignore"
    hed = entry["HED"]
    if isinstance(hed, str):
        return "value"
    if isinstance(hed, dict):
        return "categorical"
    return "badtype"


def has_key(data, key):
    """key occurs as an object key anywhere inside data (objects and arrays searched recursively)."""
    if isinstance(data, dict):
        for k in data:
            if k == key:
                return True
        for k in data:
            if has_key(data[k], key):
                return True
        return False
    if isinstance(data, list):
        for x in data:
            if has_key(x, key):
                return True
    return False


def strings_of(entry):
    """annotation strings of a HED-bearing entry: [(category key or None, text)] (only str values)."""
    k = kind(entry)
    if k == "value":
        return [(None, entry["HED"])]
    if k == "categorical":
        return [(ck, entry["HED"][ck]) for ck in entry["HED"] if isinstance(entry["HED"][ck], str)]
    return []


# ---------------------------------------------------------------- braces
def _prev_brace(s, i):
    """the nearest brace character before index i ('' if none)"""
    j = i - 1
    while j >= 0:
        if s[j] == "{" or s[j] == "}":
            return s[j]
        j -= 1
    return ""


def _next_brace(s, i):
    j = i + 1
    n = len(s)
    while j < n:
        if s[j] == "{" or s[j] == "}":
            return s[j]
        j += 1
    return ""


def brace_faults(s):
    """Indexes of offending braces, ascending.  Stated per position (no scanner state): a '{' is sound iff the
    next brace character after it is '}', a '}' is sound iff the nearest brace character before it is '{'."""
    bad = []
    i = 0
    for ch in s:
        if ch == "{" and _next_brace(s, i) != "}":
            bad.append(i)
        elif ch == "}" and _prev_brace(s, i) != "{":
            bad.append(i)
        i += 1
    return bad


def braces_ok(s):
    """balanced and not nested, stated directly (depth never exceeds 1, never negative, ends at 0)."""
    depth = 0
    for ch in s:
        if ch == "{":
            depth += 1
            if depth > 1:
                return False
        elif ch == "}":
            depth -= 1
            if depth < 0:
                return False
    return depth == 0


def refs_of(s):
    """names x of every well-formed reference {x} in s: x is the text between a '{' and the next '}' with no
    brace in between.  (The empty name and names containing characters outside [A-Za-z0-9_-] are returned as
    well: they cannot be a column reference hed-python recognises; callers decide what to claim for them.)"""
    out = []
    start = -1
    i = 0
    for ch in s:
        if ch == "{":
            start = i
        elif ch == "}":
            if start >= 0:
                out.append(s[start + 1:i])
            start = -1
        i += 1
    return out


def is_ref_name(x):
    """a name the reference syntax can carry: one or more of [A-Za-z0-9_-]"""
    if len(x) == 0:
        return False
    for ch in x:
        o = ord(ch)
        if not (48 <= o <= 57 or 65 <= o <= 90 or 97 <= o <= 122 or ch == "_" or ch == "-"):
            return False
    return True


def count_char(s, c):
    n = 0
    for ch in s:
        if ch == c:
            n += 1
    return n


# ---------------------------------------------------------------- whole documents
def structure_faults(doc):
    """rule classes of the structure (type/key) rules broken by doc (a dict).  No duplicates."""
    out = []

    def add(x):
        if x not in out:
            out.append(x)

    for name in doc:
        entry = doc[name]
        if name == "HED":
            add(HED_COLUMN)
            continue
        k = kind(entry)
        if k == "ignore":
            if has_key(entry, "HED"):
                add(HED_MISPLACED)
        elif k == "badtype":
            add(BAD_HED_TYPE)
        elif k == "categorical":
            cats = entry["HED"]
            if len(cats) == 0:
                add(BLANK_CAT)
            for ck in cats:
                val = cats[ck]
                if not isinstance(val, str):
                    add(BAD_CAT_VALUE)
                elif val == "":
                    add(BLANK_CAT)
                if ck == "n/a":
                    add(NA_KEY)
    return out


def no_claim_structure(doc):
    """documents about which the property text says nothing either way: a HED-bearing entry that has a further
    key "HED" deeper inside (the specification forbids it, the property does not mention it)."""
    for name in doc:
        entry = doc[name]
        if name != "HED" and kind(entry) != "ignore":
            for k in entry:
                if has_key(entry[k], "HED"):
                    return True
    return False


def hed_columns(doc):
    return [name for name in doc if kind(doc[name]) in ("value", "categorical")]


def pound_faults(doc):
    out = []
    for name in doc:
        entry = doc[name]
        k = kind(entry)
        for ck, text in strings_of(entry):
            n = count_char(text, "#")
            if k == "value" and n != 1 and POUND_VALUE not in out:
                out.append(POUND_VALUE)
            if k == "categorical" and n != 0 and POUND_CAT not in out:
                out.append(POUND_CAT)
    return out


def ref_faults(doc):
    """rule classes of the reference rules broken by doc.  No duplicates."""
    out = []

    def add(x):
        if x not in out:
            out.append(x)

    cols = hed_columns(doc)
    refs_by_col = []
    for name in cols:
        mine = []
        for ck, text in strings_of(doc[name]):
            if not braces_ok(text):
                add(BRACE_SHAPE)
            for r in refs_of(text):
                mine.append(r)
        refs_by_col.append((name, mine))
    for name, mine in refs_by_col:
        for r in mine:
            if r == name:
                add(SELF_REF)
            elif r != "HED" and r not in cols:
                add(UNKNOWN_REF)
            else:
                for other, theirs in refs_by_col:
                    if other == r and other != name and len(theirs) > 0:
                        add(NESTED_REF)
    return out


def all_refs_are_names(doc):
    for name in hed_columns(doc):
        for ck, text in strings_of(doc[name]):
            for r in refs_of(text):
                if not is_ref_name(r):
                    return False
    return True


def error_codes(issues):
    """codes of the error-severity issues (severity 1 in hed-python's issue dictionaries)"""
    return [i["code"] for i in issues if i.get("severity", 1) == 1]


def any_in(codes, wanted):
    for c in codes:
        if c in wanted:
            return True
    return False
