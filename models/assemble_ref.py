"""Reference for C06 (event-file rows assemble into what the sidecar prescribes).

Written from the property text, not from hed-python:

  * a cell that is ``n/a`` or empty is *skipped* (contributes nothing);
  * value column     -> the template with every ``#`` replaced by the cell text; an ``n/a`` cell stays ``n/a``
                        (which the row join then skips);
  * categorical      -> the entry stored under the cell text; no such key, or a skipped cell: nothing;
  * ignored column   -> nothing;
  * row annotation   -> the non-skipped cells joined by ``", "`` in column order;
  * ``{name}``       -> replaced in place by the referenced column's contribution; when that contribution is
                        nothing the reference disappears *as a list item*: together with its comma and with every
                        pair of parentheses that enclosed only it.

The list grammar used for "as a list item" and for "delimiter-well-formed" is the HED one:
    list  := item ("," item)*  |  <empty>
    item  := tag | "(" list ")"
    tag   := maximal run of characters other than  , ( )  with blanks trimmed, not blank
Everything is hash-free (lists, ``==``) so CrossHair keeps the strings symbolic.
"""
NA = "n/a"


# ------------------------------------------------------------------ cells
def skipped(cell):
    return cell == "" or cell == NA


def value_cell(template, cell):
    """value column, cell not skipped: template with every '#' replaced by the cell text"""
    out = ""
    for ch in template:
        if ch == "#":
            out = out + cell
        else:
            out = out + ch
    return out


def value_cell_ok(template, cell, out):
    """a skipped cell must stay skipped (n/a or empty, so that it contributes nothing to the row)"""
    if skipped(cell):
        return skipped(out)
    return out == value_cell(template, cell)


def category_cell(keys, entries, cell):
    """categorical column: entry of the (last) key equal to the cell; a cell that is no key, or is skipped,
    contributes nothing ("")"""
    hit = -1
    for i in range(len(keys)):
        if keys[i] == cell:
            hit = i
    if hit < 0:
        return ""
    if skipped(cell):
        return ""
    return entries[hit]


def join_row(cells):
    out = ""
    first = True
    for c in cells:
        if skipped(c):
            continue
        if first:
            out = c
            first = False
        else:
            out = out + ", " + c
    return out


# ------------------------------------------------------------------ sidecar entry kinds
def column_kind(entry):
    """'ignore' | 'categorical' | 'value' | 'invalid' for one decoded sidecar entry"""
    if not isinstance(entry, dict) or "HED" not in entry:
        return "ignore"
    hed = entry["HED"]
    if isinstance(hed, dict):
        for k in hed:
            if not isinstance(hed[k], str):
                return "invalid"
        return "categorical"
    if isinstance(hed, str):
        for ch in hed:
            if ch == "#":
                return "value"
        return "invalid"
    return "invalid"


# ------------------------------------------------------------------ list grammar
def _blank(ch):
    return ch == " " or "\t" <= ch <= "\r"


def trim(text):
    a = 0
    b = len(text)
    while a < b and _blank(text[a]):
        a += 1
    while b > a and _blank(text[b - 1]):
        b -= 1
    return text[a:b]


def tokens(s):
    """[',' | '(' | ')' | ('t', trimmed text)] -- blank-only runs between delimiters give no token"""
    out = []
    cur = ""
    for ch in s:
        if ch == "," or ch == "(" or ch == ")":
            t = trim(cur)
            if t != "":
                out.append(("t", t))
            cur = ""
            out.append(ch)
        else:
            cur = cur + ch
    t = trim(cur)
    if t != "":
        out.append(("t", t))
    return out


def well_formed_tokens(toks):
    """no empty item, no two items without a comma between them, parentheses balanced"""
    depth = 0
    prev = None          # None (start) | 'i' (item just ended: tag or ')') | ',' | '('
    for t in toks:
        if t == ",":
            if prev is None or prev == "," or prev == "(":
                return False
            prev = ","
        elif t == "(":
            if prev == "i":
                return False
            depth += 1
            prev = "("
        elif t == ")":
            if prev == ",":
                return False
            depth -= 1
            if depth < 0:
                return False
            prev = "i"
        else:
            if prev == "i":
                return False
            prev = "i"
    if prev == ",":
        return False
    return depth == 0


def well_formed(s):
    return well_formed_tokens(tokens(s))


def tree(toks):
    """nested lists of tag texts for a well-formed token list"""
    stack = [[]]
    for t in toks:
        if t == ",":
            continue
        if t == "(":
            stack.append([])
        elif t == ")":
            g = stack.pop()
            stack[-1].append(g)
        else:
            stack[-1].append(t[1])
    return stack[0]


def _without(node, ref):
    """(children with every leaf == ref removed and every group emptied by that removal pruned, removed_any)"""
    out = []
    removed = False
    for c in node:
        if isinstance(c, list):
            sub, r = _without(c, ref)
            if r:
                removed = True
                if len(sub) == 0:
                    continue
            out.append(sub)
        elif c == ref:
            removed = True
        else:
            out.append(c)
    return out, removed


def ref_is_item(toks, ref):
    """the reference occurs, and only as a whole list item (never inside a longer tag text)"""
    seen = False
    for t in toks:
        if t == "," or t == "(" or t == ")":
            continue
        if t[1] == ref:
            seen = True
        elif ref in t[1]:
            return False
    return seen


def removal_defined(template, ref):
    """the template is a well-formed list in which the reference stands as an item of its own"""
    toks = tokens(template)
    return well_formed_tokens(toks) and ref_is_item(toks, ref)


def removal_tree(template, ref):
    """tree of the template with the reference removed as a list item (call only if removal_defined)"""
    return _without(tree(tokens(template)), ref)[0]


def spliced_ok(pre, ref, post, value, out):
    """verdict on `out`, the template pre+ref+post after splicing `value` for the reference `ref`
    (neither pre, post nor value contain the reference)"""
    if ref in out:
        return False
    if not skipped(value):
        return out == pre + value + post          # in place, everything else untouched
    template = pre + ref + post
    if not removal_defined(template, ref):
        return True
    otoks = tokens(out)
    if not well_formed_tokens(otoks):
        return False
    return tree(otoks) == removal_tree(template, ref)
