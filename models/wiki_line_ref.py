"""Independent reading of the text grammar shared by the MediaWiki and TSV schema formats.

Written from the HED schema format description (specification ch. "Schema formats": a MediaWiki schema
line is  '''Name'''  for a top-level tag or  k asterisks, a blank and the name  for every other entry; the
placeholder name '#', the attribute list in braces and the description in brackets follow inside one
<nowiki> element; attributes are comma separated, each either `name` or `name=value`, a multi-valued
attribute repeats `name=value`), NOT from hed-python's reader.  Hash-free, no regular expressions.

  parse_line(row)   -> (level, name, attribute_text | None, description | None)  or None (not a schema line)
  pieces(text)      -> [(name, value | None), ...]  in the order they are written
  expected_pieces(pairs) -> the same list computed from the entry's own (name, value) pairs
  same_pieces(a, b) -> equal as collections (order is not part of the schema)
"""
NOWIKI_OPEN = "<nowiki>"
NOWIKI_CLOSE = "</nowiki>"


def parse_line(row):
    body = row
    extras = ""
    i = row.find(" " + NOWIKI_OPEN)
    if i >= 0:
        if not row.endswith(NOWIKI_CLOSE):
            return None
        body = row[:i]
        extras = row[i + 1 + len(NOWIKI_OPEN): len(row) - len(NOWIKI_CLOSE)]
        if extras == "":
            return None
    if body.startswith("'''"):
        if len(body) < 7 or not body.endswith("'''"):
            return None
        level = 0
        name = body[3:len(body) - 3]
    else:
        level = 0
        while level < len(body) and body[level] == "*":
            level += 1
        if level == 0 or body[level:level + 1] != " ":
            return None
        name = body[level + 1:]
    if name == "":
        # a value-taking child: its name '#' is written inside the nowiki element
        if not extras.startswith("# "):
            return None
        name = "#"
        extras = extras[2:]
    attr_text = None
    if extras.startswith("{"):
        j = extras.find("}")
        if j < 0:
            return None
        attr_text = extras[1:j]
        extras = extras[j + 1:]
        if extras.startswith(" "):
            extras = extras[1:]
    desc = None
    if extras != "":
        if len(extras) < 2 or not extras.startswith("[") or not extras.endswith("]"):
            return None
        desc = extras[1:len(extras) - 1]
    return (level, name, attr_text, desc)


def _trim(s):
    a, b = 0, len(s)
    while a < b and s[a] == " ":
        a += 1
    while b > a and s[b - 1] == " ":
        b -= 1
    return s[a:b]


def pieces(text):
    out = []
    if text is None or text == "":
        return out
    for part in text.split(","):
        part = _trim(part)
        k = part.find("=")
        if k < 0:
            out.append((part, None))
        else:
            out.append((part[:k], part[k + 1:]))
    return out


def expected_pieces(pairs):
    """pairs: [(attribute name, True | 'v' | 'v1,v2,...'), ...] as held by a schema entry"""
    out = []
    for name, value in pairs:
        if value is True:
            out.append((name, None))
        else:
            for v in value.split(","):
                out.append((name, v))
    return out


def same_pieces(a, b):
    if len(a) != len(b):
        return False
    for x in a:
        if x not in b:
            return False
    for x in b:
        if x not in a:
            return False
    return True


def same_attributes(a, b):
    """two attribute dicts name -> True | comma list; the order of names and of list items is irrelevant"""
    return same_pieces(expected_pieces(list(a.items())), expected_pieces(list(b.items())))


# ---- header line:  HED name="value" name="value" ...   (TSV: the same pairs separated by ", ")
def header_pairs(text):
    """[(name, value)] read left to right: name, '="', everything up to the next '"'."""
    out = []
    pos = 0
    n = len(text)
    while pos < n:
        while pos < n and (text[pos] == " " or text[pos] == ","):
            pos += 1
        if pos >= n:
            break
        e = text.find('="', pos)
        if e < 0:
            return None
        q = text.find('"', e + 2)
        if q < 0:
            return None
        out.append((text[pos:e], text[e + 2:q]))
        pos = q + 1
    return out
