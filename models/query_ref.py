"""Reference bracket matcher and reference grammar recogniser for the HED query language (C15).

Written from the documentation of the language (docstring of QueryHandler.__init__ in
/repo/hed/models/query_handler.py, the two documented restriction messages, and the grammar named in the
property text: {term, "term", term*, ?, ??, ???, &&, ||, ~, ( ), [ ], { }, {:}}), not from the parser.

A query is a list of token CLASS CODES (ints).  Hash-free: lists, tuples and chained comparisons only, so the
functions can run on symbolic ints under CrossHair (they fork on the class of a token, not on its text).

    query   := or
    or      := and ( '||' and )*
    and     := neg ( '&&' neg )*            (',' is a synonym of '&&')
    neg     := '~' operand | operand        (documented: the negated operand may not contain a wildcard)
    operand := '(' or ')' | '[' or ']' | '{' or '}' | '{' or ':' '}' | '{' or ':' or '}'
             | TERM | WILDCARD              (documented: no '~' anywhere inside a '{ ... : ... }' group)
"""

AND = 0       # '&&'  ','
TAG = 1       # term, "term", term*
LBRACK = 2    # '['
RBRACK = 3    # ']'
OR = 4        # '||'
LPAR = 5      # '('
RPAR = 6      # ')'
NEG = 7       # '~'
WILD = 8      # '?' '??' '???'
LBRACE = 9    # '{'
RBRACE = 10   # '}'
AT = 11       # a lone '@' (tokenised, but not part of the documented language)
COLON = 12    # ':'
NCODES = 13

# token texts -> class code (the 16 texts of DESIGN.md C15 plus ',' and '@')
TEXT_CODE = [("a", TAG), ("&&", AND), ("||", OR), ("(", LPAR), (")", RPAR), ("[", LBRACK), ("]", RBRACK),
             ("{", LBRACE), ("}", RBRACE), (":", COLON), ("~", NEG), ("?", WILD), ("??", WILD), ("???", WILD),
             ('"a"', TAG), ("a*", TAG), (",", AND), ("@", AT)]


def code_of_text(text):
    for t, c in TEXT_CODE:
        if t == text:
            return c
    return TAG


def is_open(c):
    return c == LPAR or c == LBRACK or c == LBRACE


def is_close(c):
    return c == RPAR or c == RBRACK or c == RBRACE


def closer_of(c):
    if c == LPAR:
        return RPAR
    if c == LBRACK:
        return RBRACK
    return RBRACE


def balanced(codes):
    """Reference bracket matcher: every closing symbol closes the most recent unclosed opening symbol of its
    own kind, and nothing stays open."""
    stack = []
    for c in codes:
        if is_open(c):
            stack.append(closer_of(c))
        elif is_close(c):
            if len(stack) == 0:
                return False
            if stack.pop() != c:
                return False
    return len(stack) == 0


# ---- recogniser.  Each _x(codes, i, lenient) returns None (no parse) or (next_i, has_wildcard, has_negation).

def _operand(codes, i, lenient):
    n = len(codes)
    if i >= n:
        return None
    t = codes[i]
    if t == LPAR or t == LBRACK:
        r = _or(codes, i + 1, lenient)
        if r is None:
            return None
        j = r[0]
        if j >= n or codes[j] != closer_of(t):
            return None
        return (j + 1, r[1], r[2])
    if t == LBRACE:
        r = _or(codes, i + 1, lenient)
        if r is None:
            return None
        j = r[0]
        if j >= n:
            return None
        if codes[j] == RBRACE:
            return (j + 1, r[1], r[2])
        if codes[j] != COLON:
            return None
        j += 1
        if j >= n:
            return None
        if codes[j] == RBRACE:
            if r[2]:
                return None          # documented: no negation inside {required : optional}
            return (j + 1, r[1], r[2])
        r2 = _or(codes, j, lenient)
        if r2 is None:
            return None
        j = r2[0]
        if j >= n or codes[j] != RBRACE:
            return None
        if r[2] or r2[2]:
            return None
        return (j + 1, r[1] or r2[1], False)
    if t == TAG:
        return (i + 1, False, False)
    if t == WILD:
        return (i + 1, True, False)
    if lenient:
        # lenient mode only (known-finding predicate): any other token is taken as a term
        return (i + 1, False, t == NEG)
    return None


def _neg(codes, i, lenient):
    if i < len(codes) and codes[i] == NEG:
        r = _operand(codes, i + 1, lenient)
        if r is None or r[1]:
            return None              # documented: wildcards cannot be negated
        return (r[0], False, True)
    return _operand(codes, i, lenient)


def _chain(codes, i, lenient, op, sub):
    r = sub(codes, i, lenient)
    if r is None:
        return None
    j, w, g = r
    while j < len(codes) and codes[j] == op:
        r = sub(codes, j + 1, lenient)
        if r is None:
            return None
        j, w, g = r[0], w or r[1], g or r[2]
    return (j, w, g)


def _and(codes, i, lenient):
    return _chain(codes, i, lenient, AND, _neg)


def _or(codes, i, lenient):
    return _chain(codes, i, lenient, OR, _and)


def in_grammar(codes):
    """True iff the token-class list is a sentence of the documented grammar (conservative: the two documented
    restrictions are excluded, so every accepted query must compile)."""
    r = _or(codes, 0, False)
    return r is not None and r[0] == len(codes)


def in_lenient_grammar(codes):
    """The documented grammar with one change: wherever an operand is required, ANY token that is not an opening
    symbol (in particular a closing symbol) is taken as a term.  Used only to describe the input class of the
    known finding C15-closer-as-term, never as an oracle."""
    r = _or(codes, 0, True)
    return r is not None and r[0] == len(codes)
