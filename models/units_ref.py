"""Reference for HED units, written from the HED rules / the text of C11 and the schema's MediaWiki text.

Source of the tables: the ``'''Unit classes'''`` and ``'''Unit modifiers'''`` sections of a schema's MediaWiki text
(plain text parsing below; no hed-python object is read).  Everything used at check time is hash-free (lists,
``==``) so it can run on CrossHair symbolic strings.

Rules (HED specification "Units and unit classes"; property C11):
  U1  A unit *name* (a unit without ``unitSymbol``) may be written in singular or plural and in any letter case.
  U2  A unit *symbol* (``unitSymbol``) must be written exactly as declared; symbols have no plural.
  U3  An ``SIUnit`` may be preceded, without a blank, by one SI prefix: a name unit by a modifier that has
      ``SIUnitModifier`` (the modified name is a name: any letter case, U1), a symbol unit by a modifier that has
      ``SIUnitSymbolModifier`` (the modified symbol is a symbol: exact case, U2).  A unit that is not ``SIUnit``
      takes no prefix.
  U4  A unit with ``unitPrefix`` is written in front of the number ("$ 3"), every other unit behind it ("3 s").
  U5  If the unit declares ``conversionFactor`` the value in default units is  number x unit factor x prefix
      factor (prefix factor 1 without prefix; ``^`` in a factor reads as ``e``).  If it declares none, no value
      in default units exists.
  N1  A numeric value is  [+-]? ( d+ ( . d* )? | . d+ ) ( [eE] [+-]? d+ )?   with d one of the ten ASCII digits.

Plural (U1): regular English plural of the declared (lower-cased) name - "+es" after s, x, z, ch, sh; consonant+y
-> "ies"; "foot" -> "feet"; otherwise "+s".  For the unit classes used by the harnesses (timeUnits,
currencyUnits) only "+s" occurs.

API
  parse(wiki_text) -> (classes, modifiers)   lists of dicts, document order
  Table(wiki_text)                           .forms(class_name) -> list of Form
  Form                                       .text (lower-cased for names), .exact (symbol), .unit, .modifier,
                                             .prefix_unit (U4), .factor (float or None, U5)
  Table.match(class_name, unit_text)         -> Form or None    (U1-U3; unit_text may be symbolic)
  is_number(text)                            -> bool            (N1; text may be symbolic)
"""
import re as _re


# ------------------------------------------------------------------ text -> tables (concrete, import time)
def _attrs(rest):
    m = _re.search(r"<nowiki>\s*\{([^}]*)\}", rest)
    out = []
    if m:
        for part in m.group(1).split(","):
            part = part.strip()
            if not part:
                continue
            if "=" in part:
                k, v = part.split("=", 1)
                out.append((k.strip(), v.strip()))
            else:
                out.append((part, True))
    return out


def _section(lines, title):
    start = lines.index("'''" + title + "'''")
    out = []
    for line in lines[start + 1:]:
        if line.startswith("'''") or line.startswith("!#"):
            break
        if line.startswith("*"):
            out.append(line)
    return out


def _name(line):
    body = line.lstrip("*")
    return body.split("<nowiki>")[0].strip()


def parse(wiki_text):
    lines = [ln.rstrip() for ln in wiki_text.split("\n")]
    classes = []
    for line in _section(lines, "Unit classes"):
        if line.startswith("**"):
            classes[-1]["units"].append({"name": _name(line), "attrs": _attrs(line)})
        else:
            classes.append({"name": _name(line), "attrs": _attrs(line), "units": []})
    modifiers = [{"name": _name(line), "attrs": _attrs(line)} for line in _section(lines, "Unit modifiers")]
    return classes, modifiers


def attr(entry, key):
    """declared value of attribute key (True for flags), None if absent"""
    for k, v in entry["attrs"]:
        if k == key:
            return v
    return None


def plural(name):
    if name == "foot":
        return "feet"
    if name.endswith(("s", "x", "z", "ch", "sh")):
        return name + "es"
    if len(name) > 1 and name.endswith("y") and name[-2] not in "aeiou":
        return name[:-1] + "ies"
    return name + "s"


def _num(text):
    return float(text.replace("^", "e"))


class Form:
    __slots__ = ("text", "exact", "unit", "modifier", "prefix_unit", "factor")

    def __init__(self, text, exact, unit, modifier):
        self.text = text
        self.exact = exact
        self.unit = unit
        self.modifier = modifier
        self.prefix_unit = attr(unit, "unitPrefix") is not None
        cf = attr(unit, "conversionFactor")
        if cf is None:
            self.factor = None
        else:
            self.factor = _num(cf) * (_num(attr(modifier, "conversionFactor") or "1.0") if modifier else 1.0)

    def __repr__(self):
        return "Form(%r, exact=%r, factor=%r)" % (self.text, self.exact, self.factor)


class Table:
    def __init__(self, wiki_text):
        self.classes, self.modifiers = parse(wiki_text)
        self._forms = []
        for c in self.classes:
            self._forms.append((c["name"], self._class_forms(c)))

    def _class_forms(self, c):
        sym, names = [], []
        for u in c["units"]:
            si = attr(u, "SIUnit") is not None
            if attr(u, "unitSymbol") is not None:                       # U2
                sym.append(Form(u["name"], True, u, None))
                if si:                                                  # U3
                    for m in self.modifiers:
                        if attr(m, "SIUnitSymbolModifier") is not None:
                            sym.append(Form(m["name"] + u["name"], True, u, m))
            else:                                                       # U1
                low = u["name"].lower()
                for base in (low, plural(low)):
                    names.append(Form(base, False, u, None))
                    if si:                                              # U3
                        for m in self.modifiers:
                            if attr(m, "SIUnitModifier") is not None:
                                names.append(Form(m["name"].lower() + base, False, u, m))
        return sym + names      # an exact symbol spelling is looked for first

    def unit_class(self, class_name):
        for c in self.classes:
            if c["name"] == class_name:
                return c
        return None

    def forms(self, class_name):
        for n, f in self._forms:
            if n == class_name:
                return f
        return []

    def default_unit(self, class_name):
        return attr(self.unit_class(class_name), "defaultUnits")

    def match(self, class_name, unit_text):
        """the Form that unit_text spells in this unit class, or None (unit_text may be symbolic ASCII)"""
        n = len(unit_text)
        low = None
        for f in self.forms(class_name):
            if len(f.text) != n:
                continue
            if f.exact:
                if unit_text == f.text:
                    return f
            else:
                if low is None:
                    low = unit_text.lower()
                if low == f.text:
                    return f
        return None


# ------------------------------------------------------------------ N1 (symbolic-friendly recogniser)
def _digit(ch):
    return 48 <= ord(ch) <= 57


def _digits(s, i):
    n = len(s)
    while i < n and _digit(s[i]):
        i += 1
    return i


def is_number(s):
    n = len(s)
    i = 0
    if i < n and (s[i] == "+" or s[i] == "-"):
        i += 1
    j = _digits(s, i)
    if j > i:
        i = j
        if i < n and s[i] == ".":
            i = _digits(s, i + 1)
    else:
        if not (i < n and s[i] == "."):
            return False
        j = _digits(s, i + 1)
        if j == i + 1:
            return False
        i = j
    if i < n and (s[i] == "e" or s[i] == "E"):
        i += 1
        if i < n and (s[i] == "+" or s[i] == "-"):
            i += 1
        j = _digits(s, i)
        if j == i:
            return False
        i = j
    return i == n
