"""Reference statements for C16 (BIDS sidecar inheritance), written from the property text.

    "the sidecar applied to an events file is the top-down merge, deeper files overriding shallower ones per
     column key, of every same-suffix JSON file that lies in a directory on the path from the dataset root to
     the file and whose filename entities all occur with the same values in the events filename (at most one
     such file per directory, as BIDS requires)"

Hash-free on purpose (lists, tuples, `==`): no set(), no dict stores with symbolic keys.

Representation
    entities   list of (key, value) pairs, keys distinct
    directory  tuple of path components below the dataset root; () is the root itself
    sidecar    (suffix, directory, entities)      file   (suffix, directory, entities)
    contents   list of (column, value) pairs, columns distinct
"""


def has_pair(pairs, k, v):
    for k2, v2 in pairs:
        if k2 == k and v2 == v:
            return True
    return False


def entities_subset(s_pairs, f_pairs):
    """every sidecar entity occurs in the file name with the same value"""
    for k, v in s_pairs:
        if not has_pair(f_pairs, k, v):
            return False
    return True


def ancestor_or_self(a, b):
    """directory a lies on the path from the root to directory b (component-wise prefix)"""
    if len(a) > len(b):
        return False
    for i in range(len(a)):
        if a[i] != b[i]:
            return False
    return True


def applicable(s_suffix, s_dir, s_pairs, f_suffix, f_dir, f_pairs):
    return s_suffix == f_suffix and ancestor_or_self(s_dir, f_dir) and entities_subset(s_pairs, f_pairs)


def chain(sidecars, f_suffix, f_dir, f_pairs):
    """indices (into `sidecars`) of the applicable sidecars, root first.  None if some directory holds
    two applicable ones (BIDS forbids that; the property does not say which one wins)."""
    out = []
    for depth in range(len(f_dir) + 1):
        here = f_dir[:depth]
        found = None
        for i in range(len(sidecars)):
            s_suffix, s_dir, s_pairs = sidecars[i]
            if s_dir == here and applicable(s_suffix, s_dir, s_pairs, f_suffix, f_dir, f_pairs):
                if found is not None:
                    return None
                found = i
        if found is not None:
            out.append(found)
    return out


def merge(contents_root_first):
    """deeper overrides shallower per column key -> list of (column, value), columns distinct"""
    out = []
    for contents in contents_root_first:
        for col, val in contents:
            nxt = []
            hit = False
            for c2, v2 in out:
                if c2 == col:
                    nxt.append((col, val))
                    hit = True
                else:
                    nxt.append((c2, v2))
            if not hit:
                nxt.append((col, val))
            out = nxt
    return out


def same_mapping(d, pairs):
    """real dict d holds exactly the (distinct-key) pairs; values compared by ==."""
    if len(d) != len(pairs):
        return False
    for k, v in pairs:
        if k not in d:
            return False
        if d[k] != v:
            return False
    return True
