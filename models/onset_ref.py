"""Reference semantics of Onset / Offset / Inset scopes, written from the text of property C10 and the HED
specification's description of temporal scope (NOT from hed-python's OnsetValidator).

  * the state is the list of definition names (value included, e.g. "a/1") whose scope is open;
  * names are compared case-insensitively (ASCII fold, done character by character here so that this file
    does not share `str.casefold` — or the CrossHair accelerator for it — with the code under check);
  * Onset opens the scope, or restarts it when already open (either way: open afterwards, never an error);
  * Offset closes the scope; unmatched (an error) exactly when the name is not open;
  * Inset leaves the state alone; unmatched exactly when the name is not open;
  * scopes other than the marker's own are never touched (frame condition);
  * inside one time point a name may be used once: every further marker using it is reported once and has no
    effect on the state.

Hash-free on purpose (lists, `==`, loops): hashing a symbolic string realises it under CrossHair.
"""
ONSET, OFFSET, INSET = 0, 1, 2
KIND_TAGS = ["Onset", "Offset", "Inset"]


def _upper(o):
    """1 if code point o is an ASCII upper-case letter else 0 (arithmetic on purpose: `and`/`if` would fork the
    symbolic execution once per character; bool * bool stays one z3 term)"""
    return (o >= 65) * (o <= 90)


def _fold(c):
    o = ord(c)
    return o + 32 * _upper(o)


def is_folded(name):
    """no ASCII upper-case letter in name"""
    n = 0
    for c in name:
        n = n + _upper(ord(c))
    return n == 0


def same_name(a, b):
    """case-insensitive (ASCII) equality of two definition names, value part included"""
    if len(a) != len(b):
        return False
    for i in range(len(a)):
        if _fold(a[i]) != _fold(b[i]):
            return False
    return True


def is_open(open_names, name):
    for n in open_names:
        if same_name(n, name):
            return True
    return False


def step(open_names, kind, name):
    """one marker.  -> (open names afterwards, unmatched?)"""
    if kind == ONSET:
        if is_open(open_names, name):
            return list(open_names), False          # restart: still open, still one scope
        return list(open_names) + [name], False
    if not is_open(open_names, name):
        return list(open_names), True
    if kind == OFFSET:
        return [n for n in open_names if not same_name(n, name)], False
    return list(open_names), False


def time_point(open_names, markers):
    """markers of one time point, in order: list of (kind, name).
    -> (open names afterwards, number of unmatched reports, number of repeated-name reports)"""
    used = []
    cur = list(open_names)
    unmatched = 0
    repeated = 0
    for kind, name in markers:
        if is_open(used, name):
            repeated += 1
            continue
        used.append(name)
        cur, u = step(cur, kind, name)
        if u:
            unmatched += 1
    return cur, unmatched, repeated


def same_scopes(keys, open_names):
    """the two lists denote the same set of names (case-insensitively), without repeats in `keys`"""
    if len(keys) != len(open_names):
        return False
    for k in keys:
        if not is_open(open_names, k):
            return False
    for n in open_names:
        if not is_open(keys, n):
            return False
    return True


# ---- structure of one temporal group (HED specification, "Onset/Offset/Inset" tag group rules)
def group_ok(kind, n_defs, n_other_groups, n_other_tags, def_known, def_takes_value, has_value):
    """(Def/x or (Def-expand/x,..), Onset|Inset, optional ONE inner group)  /  (Def/x, Offset)
    Delay tags are not counted by the caller.  The definition must exist and its placeholder use must agree."""
    if n_defs != 1:
        return False
    extra = n_other_groups + n_other_tags
    if kind == OFFSET:
        if extra != 0:
            return False
    else:
        if extra > 1 or n_other_tags > 0:
            return False
    if not def_known:
        return False
    return bool(def_takes_value) == bool(has_value)
