"""Reference reading of the HED annotation surface syntax (written from the property text, hash-free).

An annotation is a comma separated list of items; an item is a tag (a maximal run of characters other
than ',', '(' and ')', trimmed of U+0020 blanks, non-empty) or a parenthesised group of items.
"""


def balanced(s):
    depth = 0
    for ch in s:
        if ch == "(":
            depth += 1
        elif ch == ")":
            depth -= 1
            if depth < 0:
                return False
    return depth == 0


def parse(s):
    """-> list of nodes; node = ("t", a, b) | ("g", a, b, [nodes]).  Requires balanced(s)."""
    stack = [[]]
    starts = []
    run_a = None   # first non-blank char of the current run
    run_b = None   # one past the last non-blank char of the current run
    i = 0
    n = len(s)
    while i <= n:
        ch = s[i] if i < n else ","
        if ch == "," or ch == "(" or ch == ")":
            if run_a is not None:
                stack[-1].append(("t", run_a, run_b))
                run_a = None
                run_b = None
            if i < n and ch == "(":
                stack.append([])
                starts.append(i)
            elif i < n and ch == ")":
                kids = stack.pop()
                a = starts.pop()
                stack[-1].append(("g", a, i + 1, kids))
        elif ch != " ":
            if run_a is None:
                run_a = i
            run_b = i + 1
        i += 1
    return stack[0]
