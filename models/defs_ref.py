"""Reference semantics of HED definitions for C09, written from the property text - not from hed-python.

Everything works on annotation TEXT and is hash-free (lists, `==`, str.find, slicing), so it runs on CrossHair
symbolic strings:
  * surface syntax (items, groups, blank-trimmed tags) comes from models/parse_ref.py,
  * which schema node a tag text names (and the remainder kept verbatim) comes from models/mini_rules.py
    (tree walk over the MediaWiki text of the mini tag tree).

Rules stated by C09 and implemented below
  D1  A definition is a TOP-LEVEL group that directly holds a Definition tag (the first such tag counts).
  D2  It is acceptable only if that group holds no other tag and at most one (content) group.
  D3  The text after "Definition/" is the name; it "takes a value" iff it ends in "/#"; the label is the name
      without that suffix and must contain neither "/" nor "#".
  D4  No Def, Def-expand or Definition tag anywhere inside the content group.
  D5  takes a value  <=>  the content holds exactly one "#" in total and it sits on a value-taking tag;
      otherwise the content holds no "#" at all.
  D6  Labels compare case-insensitively; a later definition with a label already accepted is a duplicate: it is
      reported and ignored (the first one stays).
  E1  A use is a tag Def/<label>[/<value>] whose label names an accepted definition and that carries a value
      iff the definition takes one (label = text up to the first "/", value = the rest).
  E2  Expanding replaces every use by (Def-expand/<label>[/<value>], content with "#" replaced by value) - only
      the tag itself when the definition has no content - and nothing else.
  E3  Shrinking replaces every group that directly holds a Def-expand tag by the tag Def/<label>[/<value>].
  E4  A Def-expand group is valid iff it is {Def-expand tag, expansion content} compared as nested multisets
      (sibling order irrelevant at every level), tags being equal when they name the same schema node and carry
      the same remainder.  Remainders that differ ONLY in letter case are left undecided (same_tag -> None).
Printing (str): items joined by "," without blanks, groups in parentheses, an identified tag as schema short name +
remainder as written, an unidentified tag as written (this is C03's short form).
"""
from models import parse_ref as P
from models import mini_rules as MR

DEF = "Def"
DEFX = "Def-expand"
DEFN = "Definition"


# --------------------------------------------------------------------------------------------- tags
def tag_id(text):
    """(long name of the schema node the text names | None, remainder verbatim)"""
    p, n, r = MR.resolve_ns(text, ("",))
    if n is None:
        return None, ""
    return n, r


def kind(text):
    """(DEF | DEFX | DEFN | None, the text after 'Base/' - '' when there is none)"""
    n, r = tag_id(text)
    if n is None:
        return None, ""
    b = MR.base_long(n)
    if b == DEF or b == DEFX or b == DEFN:
        return b, r[1:]
    return None, ""


def shown(text):
    n, r = tag_id(text)
    if n is None:
        return text
    return MR.short_form(n, r)


def takes_value_tag(text):
    n, r = tag_id(text)
    return n is not None and MR.takes_value(n)


def count_hash(text):
    k = 0
    for ch in text:
        if ch == "#":
            k += 1
    return k


def split_name(ext):
    """D3: (label, takes_value)"""
    if ext.endswith("/#"):
        return ext[:len(ext) - 2], True
    return ext, False


def label_ok(label):
    return label.find("/") == -1 and label.find("#") == -1


def split_use(ext):
    """E1: (label, value)"""
    i = ext.find("/")
    if i == -1:
        return ext, ""
    return ext[:i], ext[i + 1:]


# --------------------------------------------------------------------------------------------- tree helpers
def _tags(nodes):
    return [n for n in nodes if n[0] == "t"]


def _groups(nodes):
    return [n for n in nodes if n[0] == "g"]


def _all_tags(nodes):
    out = []
    for n in nodes:
        if n[0] == "t":
            out.append(n)
        else:
            out += _all_tags(n[3])
    return out


def _print(nodes, s):
    """printed form of a node list, nothing replaced"""
    out = []
    for n in nodes:
        if n[0] == "t":
            out.append(shown(s[n[1]:n[2]]))
        else:
            out.append("(" + _print(n[3], s) + ")")
    return ",".join(out)


# --------------------------------------------------------------------------------------------- D1-D6
class Entry:
    def __init__(self, label, takes_value, content):
        self.label = label              # as written
        self.takes_value = takes_value
        self.content = content          # printed content group "(...)" or None


def lookup(defs, label):
    low = label.lower()
    for e in defs:
        if e.label.lower() == low:
            return e
    return None


def candidates(s):
    """D1-D5 for every definition group of annotation s, in order:
    list of (acceptable: bool, Entry, [names of the rules it breaks]).  [] when s is unbalanced (no tree)."""
    if not P.balanced(s):
        return []
    out = []
    for top in P.parse(s):
        if top[0] != "g":
            continue
        tags = _tags(top[3])
        ext = None
        for t in tags:
            k, e = kind(s[t[1]:t[2]])
            if k == DEFN:
                ext = e
                break
        if ext is None:
            continue                                             # D1: not a definition
        groups = _groups(top[3])
        label, takes = split_name(ext)
        broken = []
        if not (len(tags) == 1 and len(groups) <= 1):
            broken.append("D2")
        if not label_ok(label):
            broken.append("D3")
        content = None
        if len(groups) >= 1:
            g = groups[0]
            content = "(" + _print(g[3], s) + ")"
            hashes = 0
            on_value_tag = True
            inner_def = False
            for t in _all_tags(g[3]):
                text = s[t[1]:t[2]]
                if kind(text)[0] is not None:
                    inner_def = True
                c = count_hash(text)
                hashes += c
                if c and not takes_value_tag(text):
                    on_value_tag = False
            if inner_def:
                broken.append("D4")
            if takes:
                if not (hashes == 1 and on_value_tag):
                    broken.append("D5")
            elif hashes != 0:
                broken.append("D5")
        elif takes:
            broken.append("D5")                                  # nowhere to put the "#"
        out.append((broken == [], Entry(label, takes, content), broken))
    return out


def accept_all(strings):
    """D6 over a list of annotations: (accepted entries in order, number of duplicates ignored)"""
    acc = []
    dups = 0
    for s in strings:
        for ok, e, broken in candidates(s):
            if not ok:
                continue
            if lookup(acc, e.label) is not None:
                dups += 1
            else:
                acc.append(e)
    return acc, dups


# --------------------------------------------------------------------------------------------- E1-E3
def use_of(ext, defs):
    """E1: (Entry, value) when Def/<ext> (or Def-expand/<ext>) is a well-formed use of a definition, else None"""
    label, value = split_use(ext)
    e = lookup(defs, label)
    if e is None:
        return None
    if e.takes_value != (value != ""):
        return None
    return e, value


def plug(content, value):
    """content with its (single) '#' replaced by value"""
    i = content.find("#")
    if i == -1:
        return content
    return content[:i] + value + content[i + 1:]


def expansion(ext, defs):
    """E2: printed Def-expand group for the use Def/<ext>, or None when it is not a use"""
    u = use_of(ext, defs)
    if u is None:
        return None
    e, value = u
    if e.content is None:
        return "(" + DEFX + "/" + ext + ")"
    return "(" + DEFX + "/" + ext + "," + plug(e.content, value) + ")"


class Annot:
    """An annotation read once: surface tree + what every tag is.  Balanced text only (else .ok is False).

    node = ("t", printed, expansion | None, kind, ext) expansion: printed Def-expand group when the tag is a use
         | ("g", [nodes], label_form | None, is_use)   label_form: "Def/<ext>" when the group directly holds a
                                                       Def-expand tag (E3); is_use: that ext is a well-formed use
    """

    def __init__(self, s, defs):
        self.ok = P.balanced(s)
        self.nodes = self._read(P.parse(s), s, defs) if self.ok else []

    def _read(self, nodes, s, defs):
        out = []
        for n in nodes:
            if n[0] == "t":
                text = s[n[1]:n[2]]
                node, rem = tag_id(text)                          # one resolution per tag
                k = None
                printed = text
                if node is not None:
                    printed = MR.short_form(node, rem)
                    b = MR.base_long(node)
                    if b == DEF or b == DEFX or b == DEFN:
                        k = b
                ext = rem[1:] if k is not None else ""
                out.append(("t", printed, expansion(ext, defs) if k == DEF else None, k, ext))
            else:
                kids = self._read(n[3], s, defs)
                ext = None
                for t in kids:
                    if t[0] == "t" and t[3] == DEFX:
                        ext = t[4]
                        break
                if ext is None:
                    out.append(("g", kids, None, False))
                else:
                    out.append(("g", kids, DEF + "/" + ext, use_of(ext, defs) is not None))
        return out

    def render(self, expanded):
        """printed form with every use in expanded form (True), in label form (False) or as written (None)"""
        return self._render(self.nodes, expanded)

    def _render(self, nodes, expanded):
        out = []
        for n in nodes:
            if n[0] == "t":
                out.append(n[2] if (expanded is True and n[2] is not None) else n[1])
            elif expanded is False and n[2] is not None:
                out.append(n[2])                                 # E3
            else:
                out.append("(" + self._render(n[1], expanded) + ")")
        return ",".join(out)

    def uses(self):
        """written form (False = label form, True = expanded form) of every well-formed use, in order"""
        out = []
        self._uses(self.nodes, out)
        return out

    def _uses(self, nodes, out):
        for n in nodes:
            if n[0] == "t":
                if n[2] is not None:
                    out.append(False)
            else:
                if n[3]:
                    out.append(True)
                self._uses(n[1], out)


def render(s, defs, expanded):
    return Annot(s, defs).render(expanded)


def uses(s, defs):
    return Annot(s, defs).uses()


# --------------------------------------------------------------------------------------------- E4
def _rtree(nodes, s):
    """surface tree with every tag resolved once: ("t", node | None, remainder, text) | ("g", [..])"""
    out = []
    for n in nodes:
        if n[0] == "t":
            text = s[n[1]:n[2]]
            node, rem = tag_id(text)
            out.append(("t", node, rem, text))
        else:
            out.append(("g", _rtree(n[3], s)))
    return out


def _same_rtag(x, y):
    """True / False / None (differ only in the letter case of the remainder: undecided)"""
    na, ra, a = x[1], x[2], x[3]
    nb, rb, b = y[1], y[2], y[3]
    if na is None or nb is None:
        if na is None and nb is None:
            if a == b:
                return True
            return None if a.lower() == b.lower() else False
        return False
    if na != nb:
        return False
    if ra == rb:
        return True
    return None if ra.lower() == rb.lower() else False


def same_tag(a, b):
    na, ra = tag_id(a)
    nb, rb = tag_id(b)
    return _same_rtag(("t", na, ra, a), ("t", nb, rb, b))


def _rmatch(xs, ys, ordered=False):
    """nested-multiset equality (ordered=True: position by position) of resolved node lists: True / False / None"""
    if len(xs) != len(ys):
        return False
    used = [False] * len(ys)
    undecided = False
    for i, x in enumerate(xs):
        hit = -1
        soft = -1
        for j in ([i] if ordered else range(len(ys))):
            if used[j] or ys[j][0] != x[0]:
                continue
            if x[0] == "t":
                r = _same_rtag(x, ys[j])
            else:
                r = _rmatch(x[1], ys[j][1], ordered)
            if r is True:
                hit = j
                break
            if r is None and soft == -1:
                soft = j
        if hit == -1:
            if soft == -1:
                return None if undecided else False
            hit = soft
            undecided = True
        used[hit] = True
    return None if undecided else True


def _match(xs, sx, ys, sy, ordered=False):
    return _rmatch(_rtree(xs, sx), _rtree(ys, sy), ordered)


def same_content(a, b, ordered=False):
    """two printed item lists / groups denote the same content up to sibling order: True / False / None"""
    if not (P.balanced(a) and P.balanced(b)):
        return False
    return _match(P.parse(a), a, P.parse(b), b, ordered)


def _defx_ext(rkids):
    for t in rkids:
        if t[0] == "t" and t[1] is not None and MR.base_long(t[1]) == DEFX:
            return t[2][1:]
    return None


def defexpand_verdicts(group_text, defs):
    """One reading of a written group.  None when it is not exactly one group that directly holds a Def-expand
    tag; else (valid, valid_position_by_position, equals_the_UNPLUGGED_content_position_by_position):
      valid     E4: {Def-expand tag, content} equals the expansion of the tag's own label/value as nested
                multisets - True / False / None (None: differs only in the letter case of a remainder)
      ordered   the same, position by position in the order printed by expansion() (tag first, the Entry's order)
      unplugged position-by-position equality with the definition's content as stored, '#' NOT replaced
                (only used to describe a known finding)"""
    if not P.balanced(group_text):
        return None
    top = P.parse(group_text)
    if len(top) != 1 or top[0][0] != "g":
        return None
    kids = _rtree(top[0][3], group_text)
    ext = _defx_ext(kids)
    if ext is None:
        return None
    want = expansion(ext, defs)
    if want is None:
        return False, False, False
    wk = _rtree(P.parse(want)[0][3], want)
    valid = _rmatch(kids, wk, False)
    ordered = _rmatch(kids, wk, True) if valid is True else valid
    raw = False
    e, value = use_of(ext, defs)
    if valid is False and e.content is not None:
        w2 = "(" + DEFX + "/" + ext + "," + e.content + ")"
        # up to sibling order: since the Def-expand comparison became order-insensitive (fix d868f52) the known
        # class "content equals the UNPLUGGED definition content" is order-insensitive too
        raw = _rmatch(kids, _rtree(P.parse(w2)[0][3], w2), False)
    return valid, ordered, raw


def defexpand_group(group_text):
    return defexpand_verdicts(group_text, []) is not None


def defexpand_valid(group_text, defs, ordered=False):
    """E4 for one written group: True / False / None (see defexpand_verdicts)"""
    v = defexpand_verdicts(group_text, defs)
    if v is None:
        return False
    return v[1] if ordered else v[0]
