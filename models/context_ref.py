"""Reference semantics of "temporal context" (property C20), written from the property text — NOT from
hed-python's EventManager.

Vocabulary
  * a *history* is a list of time points in time order; a time point carries zero or more *markers*
    (ONSET / OFFSET, definition name, label) and zero or more *duration items* (duration >= 0, label);
  * a *process* is (label, start, end): it starts at the index of the time point that carries it;
      - started by an Onset it lasts until the next Onset or Offset of the same name (compared
        case-insensitively), or else to the end of the file (end == number of time points);
      - given by a Duration group it lasts until the first time point whose onset is at or after
        start time + duration (end == number of time points if there is none);
  * the *context* of time point i is exactly the processes that started strictly earlier and have not ended:
    start < i < end; every process is *listed* (base) at its start point, once; entries come in time order
    (by start point, processes of one point in the order they are written);
  * rows that share an onset are one time point (used by the row-level functions at the bottom).

Hash-free on purpose (lists, `==`, loops): hashing a symbolic value realises it under CrossHair.
"""
from models.onset_ref import same_name

ONSET, OFFSET = 1, 2


# ---------------------------------------------------------------- interval -> context (index level)
def context_at(procs, i):
    """labels of the processes ongoing at time point i: started strictly earlier, not ended; time order.
    procs: list of (label, start, end) in the order they are written inside their time point."""
    out = []
    for s in range(0, i):                       # strictly earlier start points, in time order
        for label, start, end in procs:
            if start == s and i < end:
                out.append(label)
    return out


def listed_at(procs, i):
    """labels of the processes that start at time point i (each once, in written order)"""
    out = []
    for label, start, end in procs:
        if start == i:
            out.append(label)
    return out


# ---------------------------------------------------------------- duration -> end index
def first_at_or_after(onsets, t):
    """index of the first time point whose onset is >= t; len(onsets) if there is none (linear scan on
    purpose: no bisection, so that it does not share the sortedness assumption's failure modes)"""
    i = 0
    for o in onsets:
        if o >= t:
            return i
        i += 1
    return len(onsets)


def non_decreasing(onsets):
    for j in range(1, len(onsets)):
        if onsets[j - 1] > onsets[j]:
            return False
    return True


# ---------------------------------------------------------------- Onset / Offset scan
def scan(history):
    """history: list (one entry per time point) of lists of (kind, name, label).
    -> (valid, procs) with procs = list of [label, name, start, end-or-None] in start order.
    valid is False when an Offset has no open process of its name or a name is used twice in one time point
    (such files are not valid; the property quantifies over valid ones)."""
    procs = []
    valid = True
    for t in range(len(history)):
        used = []
        for kind, name, label in history[t]:
            for u in used:
                if same_name(u, name):
                    valid = False
            used.append(name)
            was_open = False
            for p in procs:
                if p[3] is None and same_name(p[1], name):
                    p[3] = t                    # next Onset or Offset of the same name ends it here
                    was_open = True
            if kind == OFFSET and not was_open:
                valid = False
            if kind == ONSET:
                procs.append([label, name, t, None])
    return valid, procs


def close_at_end(procs, n):
    """still-open processes last to the end of the file: end == n.  -> list of (label, start, end)"""
    out = []
    for label, name, start, end in procs:
        out.append((label, start, n if end is None else end))
    return out


def open_names(procs):
    out = []
    for label, name, start, end in procs:
        if end is None:
            out.append((name, label))
    return out


# ---------------------------------------------------------------- rows sharing an onset = one time point
def point_of(onsets, i):
    """index of the first row of the run of rows that share row i's onset (onsets non-decreasing)"""
    j = i
    while j > 0 and onsets[j - 1] == onsets[i]:
        j -= 1
    return j


def merged(onsets, row_is_empty):
    """the shape the equal-onset merge guarantees: only the first row of a run carries annotation"""
    for i in range(1, len(onsets)):
        if onsets[i - 1] == onsets[i] and not row_is_empty[i]:
            return False
    return True


def row_context(onsets, procs, i):
    """context reported for row i when rows that share an onset act as one time point: processes whose start
    POINT is strictly earlier than row i's point and that have not ended at that point."""
    pi = point_of(onsets, i)
    out = []
    for s in range(0, pi):
        for label, start, end in procs:
            if start == s and pi < end:
                out.append(label)
    return out
